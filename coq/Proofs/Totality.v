(* C10 — proofs about Model/Totality.v: no Panic outcome outside the decidable classes of the recorded findings, and agreement
   of the versions written with explicit partial operations with the total models they re-express. *)
From Coq Require Import List Arith NArith ZArith Lia Bool ZifyN ZifyBool ZifyNat.
From Coq.Strings Require Import Byte.
From EV Require Import Base.Bytes Base.Codec Gen.Tables Model.Script Model.Taproot Model.Bech32 Model.Tx Model.Alloc Model.Totality
  Proofs.Script Proofs.Taproot Proofs.Alloc.
Import ListNotations.
Ltac Zify.zify_post_hook ::= Z.div_mod_to_equations.
Open Scope N_scope.
Set Default Timeout 60.

(* ------------------------------------------------------------------------------------------------ the partial operations *)
Lemma idx_ok {A} (s : list A) i d : (i < length s)%nat -> idx s i = Val (nth i s d).
Proof. intros H. unfold idx. destruct (nth_error s i) eqn:E.
  - now rewrite (nth_error_nth _ _ d E).
  - apply nth_error_None in E. lia. Qed.
Lemma idx_panic {A} (s : list A) i : (length s <= i)%nat -> idx s i = Panic WIndex.
Proof. intros H. unfold idx. apply nth_error_None in H. now rewrite H. Qed.
Lemma slice_ok {A} (s : list A) a b : (a <= b)%nat -> (b <= length s)%nat -> slice s a b = Val (firstn (b - a) (skipn a s)).
Proof. intros H1 H2. unfold slice. destruct (Nat.leb_spec a b); [|lia]. destruct (Nat.leb_spec b (length s)); [|lia]. reflexivity. Qed.
Lemma slice_from_ok {A} (s : list A) a : (a <= length s)%nat -> slice_from s a = Val (skipn a s).
Proof. intros H. unfold slice_from. rewrite slice_ok by lia. f_equal. rewrite firstn_all2; [reflexivity|]. rewrite skipn_length. lia. Qed.
Lemma slice_to_ok {A} (s : list A) b : (b <= length s)%nat -> slice_to s b = Val (firstn b s).
Proof. intros H. unfold slice_to. rewrite slice_ok by lia. now rewrite Nat.sub_0_r. Qed.
Lemma usub_ok a b : (b <= a)%nat -> usub a b = Val (a - b)%nat.
Proof. intros H. unfold usub. destruct (Nat.leb_spec b a); [reflexivity|lia]. Qed.
Lemma usub_panic a b : (a < b)%nat -> usub a b = Panic WSub.
Proof. intros H. unfold usub. destruct (Nat.leb_spec b a); [lia|reflexivity]. Qed.

(* ------------------------------------------------------------------------------------------------ raw::Key *)
Lemma key_dec_total maxvec bs : is_panic (fst (key_dec maxvec bs)) = false /\ snd (key_dec maxvec bs) <= maxvec.
Proof. unfold key_dec. destruct (vi_dec bs) as [[n r]|]; [|cbn; lia]. destruct (N.eqb_spec n 0); [cbn; lia|].
  destruct (N.leb_spec 1 n); [|lia]. destruct (N.ltb_spec maxvec (n - 1)); [cbn; lia|]. destruct r as [|t r']; [cbn; lia|].
  destruct (take _ r') as [[k rest]|]; cbn; lia. Qed.
(* the reservation of a successfully decoded key is paid for by its bytes; a failed one costs at most MAX_VEC_SIZE *)
Lemma key_dec_paid maxvec bs t key rest : key_dec maxvec bs = (Val (t, key, rest), snd (key_dec maxvec bs)) -> snd (key_dec maxvec bs) <= len bs.
Proof. unfold key_dec. destruct (vi_dec bs) as [[n r]|] eqn:V; [|discriminate]. destruct (N.eqb_spec n 0); [discriminate|].
  destruct (N.leb_spec 1 n); [|lia]. destruct (N.ltb_spec maxvec (n - 1)); [discriminate|]. destruct r as [|t' r']; [discriminate|].
  destruct (take _ r') as [[k rest']|] eqn:T; [|discriminate]. cbn [snd]. intros _. apply take_spec in T as [-> L].
  pose proof (vi_dec_min _ _ _ V) as M. unfold len in *. cbn [length] in M. rewrite app_length in M. lia. Qed.

(* ------------------------------------------------------------------------------------------------ script templates *)
Lemma andp_val a b : andp (Val a) (Val b) = Val (a && b). Proof. destruct a; reflexivity. Qed.
Lemma orp_val a b : orp (Val a) (Val b) = Val (a || b). Proof. destruct a; reflexivity. Qed.
Lemma andp_false b : andp (Val false) b = Val false. Proof. reflexivity. Qed.
Lemma at_eq_ok s i v : (i < length s)%nat -> at_eq s i v = Val (at_ s i =? v).
Proof. intros H. unfold at_eq, at_. now rewrite (idx_ok s i x00 H). Qed.
Lemma at_le_ok s i v : (i < length s)%nat -> at_le s i v = Val (at_ s i <=? v).
Proof. intros H. unfold at_le, at_. now rewrite (idx_ok s i x00 H). Qed.
Lemma at_ge_ok s i v : (i < length s)%nat -> at_ge s i v = Val (v <=? at_ s i).
Proof. intros H. unfold at_ge, at_. now rewrite (idx_ok s i x00 H). Qed.

Ltac tmpl := repeat (rewrite at_eq_ok by lia); repeat (rewrite at_le_ok by lia); repeat (rewrite at_ge_ok by lia); repeat rewrite andp_val; repeat rewrite orp_val.
Lemma is_p2sh_p_eq s : is_p2sh_p s = Val (is_p2sh s).
Proof. unfold is_p2sh_p, is_p2sh, lenb, len_is. destruct (Nat.eqb_spec (length s) 23) as [E|]; [|reflexivity]. tmpl. now rewrite !andb_assoc. Qed.
Lemma is_p2pkh_p_eq s : is_p2pkh_p s = Val (is_p2pkh s).
Proof. unfold is_p2pkh_p, is_p2pkh, lenb, len_is. destruct (Nat.eqb_spec (length s) 25) as [E|]; [|reflexivity]. tmpl. now rewrite !andb_assoc. Qed.
Lemma is_p2pk_p_eq s : is_p2pk_p s = Val (is_p2pk s).
Proof. unfold is_p2pk_p, is_p2pk, lenb, len_is.
  destruct (Nat.eqb_spec (length s) 67) as [E|]; [destruct (Nat.eqb_spec (length s) 35); [lia|]; tmpl; now rewrite !andb_assoc|].
  destruct (Nat.eqb_spec (length s) 35) as [E|]; [|reflexivity]. cbn [andp bind orp]. tmpl. cbn [andb orb]. try rewrite !andb_assoc. reflexivity. Qed.
Lemma is_v0_p2wsh_p_eq s : is_v0_p2wsh_p s = Val (is_v0_p2wsh s).
Proof. unfold is_v0_p2wsh_p, is_v0_p2wsh, lenb, len_is. destruct (Nat.eqb_spec (length s) 34) as [E|]; [|reflexivity]. tmpl. now rewrite !andb_assoc. Qed.
Lemma is_v1_p2tr_p_eq s : is_v1_p2tr_p s = Val (is_v1_p2tr s).
Proof. unfold is_v1_p2tr_p, is_v1_p2tr, lenb, len_is. destruct (Nat.eqb_spec (length s) 34) as [E|]; [|reflexivity]. tmpl. now rewrite !andb_assoc. Qed.
Lemma is_v0_p2wpkh_p_eq s : is_v0_p2wpkh_p s = Val (is_v0_p2wpkh s).
Proof. unfold is_v0_p2wpkh_p, is_v0_p2wpkh, lenb, len_is. destruct (Nat.eqb_spec (length s) 22) as [E|]; [|reflexivity]. tmpl. now rewrite !andb_assoc. Qed.
Lemma is_op_return_p_eq s : is_op_return_p s = Val (is_op_return s).
Proof. unfold is_op_return_p, is_op_return. destruct s as [|b r]; [reflexivity|]. cbn [Script.is_empty negb]. rewrite at_eq_ok by (cbn; lia). now rewrite andp_val. Qed.
Lemma lenN_nat s : Script.lenN s = N.of_nat (length s). Proof. reflexivity. Qed.
Lemma is_witness_program_p_eq s : is_witness_program_p s = Val (is_witness_program s).
Proof. unfold is_witness_program_p, is_witness_program. rewrite !lenN_nat.
  destruct (Nat.leb_spec 4 (length s)) as [L4|L4].
  - destruct (Nat.leb_spec (length s) 42) as [L42|L42].
    + assert (E1 : (4 <=? N.of_nat (length s)) = true) by (apply N.leb_le; lia). assert (E2 : (N.of_nat (length s) <=? 42) = true) by (apply N.leb_le; lia).
      rewrite E1, E2. tmpl. rewrite usub_ok by lia. rewrite (idx_ok s 1 x00) by lia. cbn [bind]. rewrite !andp_val. cbn [andb].
      unfold at_. replace (N.of_nat (length s - 2)) with (N.of_nat (length s) - 2) by lia. now rewrite !andb_assoc.
    + assert (E1 : (4 <=? N.of_nat (length s)) = true) by (apply N.leb_le; lia). assert (E2 : (N.of_nat (length s) <=? 42) = false) by (apply N.leb_gt; lia).
      rewrite E1, E2. reflexivity.
  - assert (E1 : (4 <=? N.of_nat (length s)) = false) by (apply N.leb_gt; lia). rewrite E1. reflexivity. Qed.
Lemma is_v1plus_p2witprog_p_eq s : is_v1plus_p2witprog_p s = Val (is_v1plus_p2witprog s).
Proof. unfold is_v1plus_p2witprog_p, is_v1plus_p2witprog. rewrite !lenN_nat.
  destruct (Nat.ltb_spec 1 (length s)) as [L|L].
  - assert (E1 : (1 <? N.of_nat (length s)) = true) by (apply N.ltb_lt; lia). rewrite E1. rewrite (idx_ok s 1 x00) by lia. cbn [bind]. tmpl.
    unfold Totality.lenN, at_. now rewrite !andb_assoc.
  - assert (E1 : (1 <? N.of_nat (length s)) = false) by (apply N.ltb_ge; lia). rewrite E1. reflexivity. Qed.

(* ------------------------------------------------------------------------------------------------ read_uint *)
Lemma read_uint_loop_release items : forall i ret w, read_uint_loop Release items i ret <> Panic w.
Proof. induction items as [|x r IH]; intros i ret w; cbn [read_uint_loop]; [discriminate|].
  destruct (i * 8 <? 64); cbn [bind]; destruct (_ + _ <? 2 ^ 64); cbn [bind]; apply IH. Qed.
(* with at most 8 bytes nothing overflows: the value is the little-endian number, in both profiles *)
Lemma read_uint_loop_small p items : forall i ret, (N.to_nat i + length items <= 8)%nat -> ret < 2 ^ (8 * i) ->
  read_uint_loop p items i ret = Val (ret + 2 ^ (8 * i) * le_val items).
Proof. induction items as [|x r IH]; intros i ret L R; cbn [read_uint_loop le_val]; [f_equal; lia|].
  cbn [length] in L. assert (Hi : i <= 7) by lia. destruct (N.ltb_spec (i * 8) 64) as [_|]; [|lia].
  pose proof (b2n_lt x) as Hx. pose proof (le_val_lt r) as Hr.
  assert (P8 : 2 ^ (8 * (i + 1)) = 256 * 2 ^ (8 * i)) by (replace (8 * (i + 1)) with (8 + 8 * i) by lia; rewrite N.pow_add_r; reflexivity).
  assert (Pm : 2 ^ (8 * i) * 256 <= 2 ^ 64). { replace (2 ^ (8 * i) * 256) with (2 ^ (8 * i + 8)) by (rewrite N.pow_add_r; reflexivity). apply N.pow_le_mono_r; lia. }
  rewrite N.shiftl_mul_pow2. replace (i * 8) with (8 * i) by lia.
  assert (S1 : b2n x * 2 ^ (8 * i) < 2 ^ 64) by nia. rewrite (N.mod_small _ _ S1). cbn [bind].
  assert (S2 : ret + b2n x * 2 ^ (8 * i) < 2 ^ 64) by nia. destruct (N.ltb_spec (ret + b2n x * 2 ^ (8 * i)) (2 ^ 64)) as [_|]; [|lia]. cbn [bind].
  rewrite IH; [f_equal; nia|lia|nia]. Qed.
Lemma read_uint_p_small p data size : (size <= 8)%nat ->
  read_uint_p p data size = match Script.read_uint data size with SOk n => Val n | SErr _ => Fail (E "early") end.
Proof. intros H. unfold read_uint_p, Script.read_uint. destruct (Nat.ltb_spec (length data) size); [reflexivity|].
  destruct (Nat.ltb_spec 8 size); [lia|].
  rewrite read_uint_loop_small; [f_equal; cbn; lia| |cbn; lia]. rewrite firstn_length. cbn. lia. Qed.
(* since 6050d64 an oversized `size` is the error NumericOverflow: no shift can overflow any more, in either profile *)
Lemma read_uint_p_total p data size w : read_uint_p p data size <> Panic w.
Proof. destruct (Nat.leb_spec size 8) as [L|L].
  - rewrite read_uint_p_small by lia. destruct (Script.read_uint data size); discriminate.
  - unfold read_uint_p. destruct (_ <? size)%nat; [discriminate|]. destruct (Nat.ltb_spec 8 size); [discriminate|lia]. Qed.
Lemma read_uint_p_oversize p data size : (8 < size)%nat -> (size <= length data)%nat -> read_uint_p p data size = Fail (E "overflow").
Proof. intros L1 L2. unfold read_uint_p. destruct (Nat.ltb_spec (length data) size); [lia|]. destruct (Nat.ltb_spec 8 size); [reflexivity|lia]. Qed.

(* ------------------------------------------------------------------------------------------------ pegin / pegout / minimum_value *)
Lemma from_pegin_witness_total w x : from_pegin_witness w <> Panic x.
Proof. unfold from_pegin_witness. destruct (Nat.eqb_spec (length w) 6) as [L|]; [|discriminate]. cbn [negb].
  rewrite (idx_ok w 5 []) by lia. cbn [bind]. destruct (_ <? 80)%nat; [discriminate|].
  rewrite (idx_ok w 0 []) by lia. cbn [bind]. destruct (negb _); [discriminate|].
  rewrite (idx_ok w 1 []) by lia. cbn [bind]. destruct (negb _); [discriminate|].
  rewrite (idx_ok w 2 []) by lia. cbn [bind]. destruct (negb _); [discriminate|].
  rewrite (idx_ok w 3 []), (idx_ok w 4 []) by lia. discriminate. Qed.

Definition clean (i : Script.item) : Prop := match i with IPanic _ | IFuel => False | _ => True end.
Lemma null_go_total : forall l, Forall clean l -> forall x,
  (fix go (l : list Script.item) : outcome bool :=
     match l with
     | [] => Val true
     | IOp op :: r => if OP_PUSHNUM_16 <? b2n op then Val false else go r
     | IErr _ :: _ => Val false
     | IPanic _ :: _ => Panic WExpect
     | IFuel :: _ => Panic WFuel
     | IPush _ :: r => go r end) l <> Panic x.
Proof. induction l as [|i r IH]; intros F x; [discriminate|]. inversion F as [|? ? Ci Fr]; subst.
  destruct i; try (exfalso; exact Ci); try discriminate; [apply IH; assumption|destruct (_ <? _); [discriminate|apply IH; assumption]]. Qed.
Lemma instructions_all_clean m s : Forall clean (instructions m s).
Proof. apply Forall_forall. intros i H. exact (instructions_clean m s i H). Qed.
Lemma is_null_data_total s x : is_null_data s <> Panic x.
Proof. unfold is_null_data. pose proof (instructions_all_clean false s) as F. destruct (instructions false s) as [|i r]; [discriminate|].
  inversion F as [|? ? Ci Fr]; subst. destruct i; try (exfalso; exact Ci); try discriminate.
  destruct (_ =? _); [|discriminate]. apply null_go_total. assumption. Qed.
Lemma pegout_data_total v s x : pegout_data v s <> Panic x.
Proof. unfold pegout_data. destruct (is_null_data s) as [nd|e|w] eqn:N; cbn [bind]; [|discriminate|exfalso; exact (is_null_data_total s w N)].
  destruct nd; cbn [negb]; [|discriminate]. destruct v; [|discriminate]. destruct (instructions false s) as [|i rest]; [discriminate|].
  destruct (push_of _); [|discriminate]. destruct (negb _); [discriminate|]. destruct (push_of _); [|discriminate].
  destruct (Script.is_empty _); [discriminate|]. destruct (forallb _ _); discriminate. Qed.

Lemma rangeproof_ok_len p : rangeproof_ok p = true -> (65 <= length p)%nat.
Proof. unfold rangeproof_ok. destruct (Nat.ltb_spec (length p) 65); [discriminate|lia]. Qed.
Lemma minimum_value_conf_total opret p x : (10 <= length p)%nat -> minimum_value_conf opret p <> Panic x.
Proof. intros L. unfold minimum_value_conf. rewrite (idx_ok p 0 x00) by lia. cbn [bind]. destruct (negb _); [discriminate|].
  destruct (N.testbit _ 6).
  - rewrite slice_ok by lia. cbn [bind]. rewrite firstn_length, skipn_length. replace (Nat.min (10 - 2) (length p - 2)) with 8%nat by lia. cbn. discriminate.
  - rewrite slice_ok by lia. cbn [bind]. rewrite firstn_length, skipn_length. replace (Nat.min (9 - 1) (length p - 1)) with 8%nat by lia. cbn. discriminate. Qed.
(* total because the only constructors of a RangeProof admit proofs of at least 65 bytes (Model/Tx.rangeproof_ok) *)
Lemma minimum_value_p_total v opret prf x : (forall p, prf = Some p -> rangeproof_ok p = true) -> minimum_value_p v opret prf <> Panic x.
Proof. intros H. unfold minimum_value_p. destruct v; try discriminate. destruct prf as [p|]; [|discriminate].
  apply minimum_value_conf_total. pose proof (rangeproof_ok_len p (H p eq_refl)). lia. Qed.
(* and it is only that: a 9-byte "proof" with the min-value flag would slice out of range *)
Lemma minimum_value_short_panics : minimum_value_conf false (x60 :: repeat x00 8) = Panic WSlice.
Proof. reflexivity. Qed.

(* ------------------------------------------------------------------------------------------------ Pset::locktime *)
Definition lt_inv (st : ltk * ltk) : Prop :=
  match st with (Unconstrained, Disallowed) | (Disallowed, Unconstrained) => False | _ => True end.
Lemma lt_max_min a x : lt_max a (Minimum x) <> Unconstrained. Proof. destruct a; discriminate. Qed.
Lemma lt_step_inv st inp : lt_inv st -> lt_inv (lt_step st inp).
Proof. destruct st as [t h], inp as [[rt|] [rh|]]; cbn [lt_step]; intros I; try exact I.
  - pose proof (lt_max_min t rt). pose proof (lt_max_min h rh). destruct (lt_max t (Minimum rt)), (lt_max h (Minimum rh)); cbn; auto.
  - pose proof (lt_max_min t rt). destruct (lt_max t (Minimum rt)); cbn; auto.
  - pose proof (lt_max_min h rh). destruct (lt_max h (Minimum rh)); cbn; auto. Qed.
Lemma lt_fold_inv inputs : forall st, lt_inv st -> lt_inv (fold_left lt_step inputs st).
Proof. induction inputs as [|i r IH]; intros st I; [exact I|]. cbn [fold_left]. apply IH, lt_step_inv, I. Qed.
Lemma locktime_p_total fallback inputs x : locktime_p fallback inputs <> Panic x.
Proof. unfold locktime_p. pose proof (lt_fold_inv inputs (Unconstrained, Unconstrained) I) as H.
  destruct (fold_left lt_step inputs (Unconstrained, Unconstrained)) as [[| |] [| |]]; cbn in H; try discriminate; contradiction. Qed.

(* ------------------------------------------------------------------------------------------------ Global::merge, xpub branch *)
Lemma eqp_spec (a b : list N) : (if list_eq_dec N.eq_dec a b then true else false) = true <-> a = b.
Proof. destruct (list_eq_dec N.eq_dec a b); split; congruence. Qed.
(* both subtractions sit behind their length tests (the second one since 4b01389) *)
Lemma merge_xpub_total f2 d2 f1 d1 w : merge_xpub f2 d2 f1 d1 <> Panic w.
Proof. unfold merge_xpub. destruct (_ && _); [discriminate|].
  destruct (Nat.ltb_spec (length d1) (length d2)).
  - rewrite usub_ok by lia. cbn [bind]. rewrite slice_from_ok by lia. cbn [bind]. destruct (list_eq_dec N.eq_dec d1 _); [discriminate|].
    destruct (Nat.ltb_spec (length d2) (length d1)); [lia|]. cbn [bind]. discriminate.
  - cbn [bind]. destruct (Nat.ltb_spec (length d2) (length d1)); cbn [bind]; [|discriminate].
    rewrite usub_ok by lia. cbn [bind]. rewrite slice_from_ok by lia. cbn [bind]. destruct (list_eq_dec N.eq_dec d2 _); discriminate. Qed.
(* what the repaired branch decides: keep on identical sources or when other's path is a proper suffix of self's, replace when self's is a
   proper suffix of other's, conflict otherwise (in particular equal paths with different fingerprints, formerly F4) *)
Lemma merge_xpub_conflict_equal_paths f2 f1 d : f1 <> f2 -> merge_xpub f2 d f1 d = Fail (E "conflict").
Proof. intros NE. unfold merge_xpub. destruct (list_eq_dec N.eq_dec d d); [|contradiction]. destruct (bytes_eqb_spec f1 f2); [contradiction|]. cbn [andb].
  rewrite Nat.ltb_irrefl. cbn [bind]. reflexivity. Qed.

(* ------------------------------------------------------------------------------------------------ Transaction::blind, output selection *)
Definition nblind (outs : list bout) : nat := length (filter to_blind outs).
Lemma blind_loop_spec : forall outs i n nb last bl r, blind_loop outs i n nb last bl = Val r -> (nb + nblind outs = n)%nat ->
  (fst r = None -> last = None /\ nblind outs = 0%nat) /\
  (forall li, fst r = Some li -> last = Some li \/ (i <= li < i + length outs)%nat).
Proof. induction outs as [|o rest IH]; intros i n nb last bl r H Hn; cbn [blind_loop] in H.
  - inversion H; subst r. cbn [fst]. split; [intros ->; auto|intros li ->; auto].
  - unfold nblind in *. cbn [filter length] in *. unfold to_blind in Hn at 1. unfold to_blind at 1.
    destruct (bo_fee o) eqn:Ef; cbn [orb negb andb] in *.
    { destruct (IH _ _ _ _ _ _ H Hn) as [A B]. split; [exact A|]. intros li Hl. destruct (B li Hl); [auto|right; lia]. }
    destruct (bo_marked o) eqn:Em; cbn [negb] in *.
    2:{ destruct (IH _ _ _ _ _ _ H Hn) as [A B]. split; [exact A|]. intros li Hl. destruct (B li Hl); [auto|right; lia]. }
    cbn [length] in Hn. destruct (bo_addr o); cbn [negb] in H; [|discriminate].
    destruct (Nat.ltb_spec (nb + 1) n).
    + destruct (IH _ _ _ _ _ _ H ltac:(lia)) as [A B]. split.
      * intros Hn0. destruct (A Hn0) as [_ Z]. lia.
      * intros li Hl. destruct (B li Hl); [auto|right; lia].
    + destruct (IH _ _ _ _ _ _ H ltac:(lia)) as [A B]. split.
      * intros Hn0. destruct (A Hn0) as [Z _]. discriminate.
      * intros li Hl. destruct (B li Hl) as [Z|Z]; [inversion Z; subst; right; lia|right; lia]. Qed.
Lemma blind_loop_no_panic : forall outs i n nb last bl w, blind_loop outs i n nb last bl <> Panic w.
Proof. induction outs as [|o r IH]; intros i n nb last bl w; cbn [blind_loop]; [discriminate|].
  destruct (bo_fee o || negb (bo_marked o)); [apply IH|]. destruct (negb (bo_addr o)); [discriminate|]. destruct (_ <? _)%nat; apply IH. Qed.
(* since 8d5600e an empty selection is the error TooFewBlindingOutputs; the index of the last marked output is in range *)
Lemma blind_select_total outs w : blind_select outs <> Panic w.
Proof. unfold blind_select. fold (nblind outs). intros H.
  destruct (blind_loop outs 0 (nblind outs) 0 None []) as [[last bl]|e|w'] eqn:L; cbn [bind] in H; [|discriminate|exact (blind_loop_no_panic _ _ _ _ _ _ _ L)].
  destruct (blind_loop_spec _ _ _ _ _ _ _ L ltac:(lia)) as [A B]. cbn [fst] in A, B. destruct last as [li|]; cbn [bind] in H; [|discriminate].
  destruct (B li eq_refl) as [Z|Z]; [discriminate|]. rewrite (idx_ok outs li {| bo_fee := false; bo_marked := false; bo_addr := false |}) in H by lia. discriminate. Qed.
Lemma blind_select_nothing_marked : blind_select [ {| bo_fee := true; bo_marked := false; bo_addr := false |} ] = Fail (E "toofew"). Proof. reflexivity. Qed.

(* ------------------------------------------------------------------------------------------------ fee sums *)
(* the saturating sum is the true sum capped at u64::MAX: exact below 2^64, and monotone, so comparing it with any threshold below
   u64::MAX answers as the true sum would *)
Lemma fee_sum_spec vals : forall acc, acc <= U64_MAX -> fee_sum vals acc = N.min (acc + fold_right N.add 0 vals) U64_MAX.
Proof. induction vals as [|v r IH]; intros acc H; cbn [fee_sum fold_right].
  - rewrite N.add_0_r. symmetry. apply N.min_l. exact H.
  - rewrite IH by (unfold sat_add; apply N.le_min_r). unfold sat_add. unfold U64_MAX in *. lia. Qed.
Lemma fee_in_spec outs asset : fee_in outs asset = Val (N.min (fold_right N.add 0 (map snd (filter (fun o => fst o =? asset) outs))) U64_MAX).
Proof. unfold fee_in. rewrite fee_sum_spec by (unfold U64_MAX; lia). reflexivity. Qed.

(* ------------------------------------------------------------------------------------------------ commitments from slices *)
Lemma from_commitment_p_total pt_ok sl w : from_commitment_p pt_ok sl <> Panic w.
Proof. unfold from_commitment_p, read33. destruct (Nat.eqb (length sl) 33); discriminate. Qed.
(* the length test added by 838e50c is what this rests on: the hand-over without it reads out of bounds on every other length *)
Lemma read33_oob pt_ok sl : (exists w, read33 pt_ok sl = Panic w) <-> length sl <> 33%nat.
Proof. unfold read33. destruct (Nat.eqb_spec (length sl) 33); split; try congruence; eauto. intros [w H]; discriminate. Qed.

(* ------------------------------------------------------------------------------------------------ TaprootBuilder *)
(* since c723f02 finalize has no panic left, whatever the state — API-built or produced by serde *)
Lemma finalize_p_total b s : finalize_p b <> Taproot.Panic s.
Proof. unfold finalize_p, Taproot.finalize. destruct (1 <? _)%nat; [discriminate|]. destruct b as [|[n|] r]; try discriminate;
  unfold from_node_info, new_key_spend, tap_tweak; cbn; discriminate. Qed.
Lemma finalize_p_serde : finalize_p [None] = Taproot.Fail IncompleteTree. Proof. reflexivity. Qed.

(* ------------------------------------------------------------------------------------------------ blech32 decode *)
Definition validc (c : byte) : bool := match from_char c with Some _ => true | None => false end.
Definition hpanic {A} (r : hres A) : bool := match r with HPanic _ => true | _ => false end.
Lemma cc_valid s h d : Bech32.check_characters s = Bech32.Ok (h, d) -> forallb validc d = true.
Proof. unfold Bech32.check_characters. destruct (rsplit x31 s) as [[h' d']|].
  - fold validc. destruct (forallb validc d') eqn:F; cbn [negb]; [|discriminate]. destruct (_ && _); [discriminate|]. intros H; inversion H; subst. exact F.
  - destruct (negb _); [discriminate|]. destruct (_ && _); discriminate. Qed.
Lemma unchecked_new_p_spec s : unchecked_new_p s = of_res (Bech32.unchecked_new s).
Proof. unfold unchecked_new_p, Bech32.unchecked_new. destruct (Bech32.check_characters s) as [[h d]|e]; cbn [of_res hbind]; [|reflexivity].
  rewrite slice_from_ok by (cbn; lia). cbn [skipn of_outcome hbind]. destruct (hrp_parse h) as [[]|e]; reflexivity. Qed.
Lemma unchecked_valid s h d : unchecked_new_p s = HOk (h, d) -> forallb validc d = true.
Proof. unfold unchecked_new_p. destruct (Bech32.check_characters s) as [[h' d']|e] eqn:C; cbn [of_res hbind]; [|discriminate].
  rewrite slice_from_ok by (cbn; lia). cbn [skipn of_outcome hbind]. destruct (hrp_parse h') as [[]|e]; cbn [of_res hbind]; [|discriminate].
  intros H; inversion H; subst. exact (cc_valid _ _ _ C). Qed.
Lemma unchecked_no_panic s : hpanic (unchecked_new_p s) = false.
Proof. rewrite unchecked_new_p_spec. destruct (Bech32.unchecked_new s); reflexivity. Qed.
Lemma syms_p_ok d : forallb validc d = true -> exists syms, syms_p d = HOk syms /\ length syms = length d.
Proof. induction d as [|c r IH]; cbn [forallb syms_p]; [eauto|]. unfold validc at 1. intros H. apply andb_true_iff in H as [Hc Hr].
  destruct (from_char c); [|discriminate]. destruct (IH Hr) as (t & -> & L). cbn [hbind]. eexists. split; [reflexivity|cbn; lia]. Qed.
Lemma forallb_firstn {A} (p : A -> bool) n l : forallb p l = true -> forallb p (firstn n l) = true.
Proof. revert n; induction l as [|a r IH]; intros [|n]; cbn; auto. intros H. apply andb_true_iff in H as [-> H]. now rewrite IH. Qed.
Lemma forallb_skipn {A} (p : A -> bool) n l : forallb p l = true -> forallb p (skipn n l) = true.
Proof. revert n; induction l as [|a r IH]; intros [|n]; cbn; auto. intros H. apply andb_true_iff in H as [_ H]. now apply IH. Qed.

(* validate_checksum then remove_checksum: either an error, or the data without its checksum (still bech32 characters) *)
Lemma checksum_steps c h d : forallb validc d = true ->
  match hbind (validate_checksum_p c h d) (fun _ => remove_checksum_p c d) with
  | HOk d' => forallb validc d' = true | HErr _ => True | HPanic _ => False end.
Proof. intros V. unfold validate_checksum_p, remove_checksum_p.
  destruct (Nat.eqb_spec (c_len c) 0) as [Z|NZ].
  - cbn [hbind]. rewrite Z, usub_ok by lia. cbn [of_outcome hbind]. rewrite slice_to_ok by lia. cbn. now apply forallb_firstn.
  - destruct (Nat.ltb_spec (length d) (c_len c)); [exact I|]. destruct (syms_p_ok d V) as (syms & -> & _). cbn [hbind].
    destruct (valid_codeword _ _); cbn [hbind]; [|exact I]. rewrite usub_ok by lia. cbn [of_outcome hbind]. rewrite slice_to_ok by lia. cbn. now apply forallb_firstn. Qed.
Lemma checked_no_panic c s : hpanic (checked_new_p c s) = false.
Proof. unfold checked_new_p. pose proof (unchecked_no_panic s) as U. destruct (unchecked_new_p s) as [[h d]|e|w] eqn:Eu; cbn [hbind]; [|reflexivity|discriminate].
  pose proof (checksum_steps c h d (unchecked_valid _ _ _ Eu)) as S.
  destruct (validate_checksum_p c h d) as [[]|e|w]; cbn [hbind] in *; [|reflexivity|contradiction].
  destruct (remove_checksum_p c d); cbn [hbind] in *; [reflexivity|reflexivity|contradiction]. Qed.

Lemma validate_padding_no_panic d : forallb validc d = true -> hpanic (validate_padding_p d) = false.
Proof. intros V. unfold validate_padding_p. destruct d as [|c r]; [reflexivity|]. set (d := c :: r) in *.
  destruct (Nat.ltb_spec 4 (length d * 5 mod 8)) as [|P]; [reflexivity|]. destruct (syms_p_ok d V) as (syms & -> & L). cbn [hbind].
  destruct syms as [|v t]; [cbn in L; lia|]. cbn [expect of_outcome hbind].
  destruct (length d * 5 mod 8)%nat as [|[|[|[|[|p]]]]]; cbn [hbind]; try (destruct (0 <? _); reflexivity); [reflexivity|lia]. Qed.
Lemma validate_segwit_no_panic h d : forallb validc d = true -> hpanic (validate_segwit_p h d) = false.
Proof. intros V. unfold validate_segwit_p. destruct d as [|c r]; [reflexivity|]. rewrite (idx_ok (c :: r) 0 x00) by (cbn; lia). cbn [nth of_outcome hbind].
  cbn [forallb] in V. apply andb_true_iff in V as [Vc Vr]. unfold validc in Vc. destruct (from_char c) as [ver|]; [|discriminate]. cbn [expect of_outcome hbind].
  rewrite slice_from_ok by (cbn; lia). cbn [skipn of_outcome hbind]. pose proof (validate_padding_no_panic r Vr) as P.
  destruct (validate_padding_p r) as [[]|e|w]; cbn [hbind] in *; [|reflexivity|discriminate]. unfold validate_wpl_p.
  destruct (_ <? _)%nat; [reflexivity|]. destruct (_ <? _)%nat; [reflexivity|]. destruct (_ && _); reflexivity. Qed.

(* after the front part, everything is guarded *)
Lemma segwit_tail_no_panic c h d : forallb validc d = true ->
  hpanic (hbind (validate_checksum_p c h d) (fun _ => hbind (remove_checksum_p c d) (fun d' => validate_segwit_p h d'))) = false.
Proof. intros V. pose proof (checksum_steps c h d V) as S. destruct (validate_checksum_p c h d) as [[]|e|w]; cbn [hbind] in *; [|reflexivity|contradiction].
  destruct (remove_checksum_p c d) as [d'|e|w]; cbn [hbind] in *; [|reflexivity|contradiction]. now apply validate_segwit_no_panic. Qed.
Lemma segwit_front_spec s :
  match segwit_front s with
  | HOk (h, d, ver) => forallb validc d = true
  | HErr _ => True
  | HPanic _ => False end.
Proof. unfold segwit_front. pose proof (unchecked_no_panic s) as U. destruct (unchecked_new_p s) as [[h d]|e|w] eqn:Eu; cbn [hbind]; [|exact I|discriminate].
  pose proof (unchecked_valid _ _ _ Eu) as V. destruct d as [|c r]; [exact I|].
  cbn [Script.is_empty]. rewrite (idx_ok (c :: r) 0 x00) by (cbn; lia). cbn [nth of_outcome hbind].
  pose proof V as V'. cbn [forallb] in V'. apply andb_true_iff in V' as [Vc _]. unfold validc in Vc. destruct (from_char c); [|discriminate]. cbn [expect of_outcome hbind].
  destruct (_ <? _); [exact I|exact V]. Qed.
Lemma segwit_new_no_panic s : hpanic (segwit_new_p s) = false.
Proof. unfold segwit_new_p. pose proof (segwit_front_spec s) as F. destruct (segwit_front s) as [[[h d] ver]|e|w]; cbn [hbind]; [|reflexivity|contradiction].
  now apply segwit_tail_no_panic. Qed.
(* since a4bc64e new_bech32 has the same guard *)
Lemma segwit_new_bech32_no_panic s : hpanic (segwit_new_bech32_p s) = false.
Proof. unfold segwit_new_bech32_p. pose proof (segwit_front_spec s) as F. destruct (segwit_front s) as [[[h d] ver]|e|w]; cbn [hbind]; [|reflexivity|contradiction].
  now apply segwit_tail_no_panic. Qed.
Lemma segwit_new_bech32_empty_data : segwit_new_bech32_p [x61; x31] = HErr ENoData. Proof. reflexivity. Qed.

(* ------------------------------------------------------------------------------------------------ taproot / schnorr slice parsers *)
Lemma NODE_32 : NODE = 32%nat. Proof. reflexivity. Qed.
Lemma BASE_33 : BASE = 33%nat. Proof. reflexivity. Qed.
Lemma chunks_p_total : forall fuel sl w, (length sl <= fuel)%nat -> chunks_p fuel sl <> Panic w.
Proof. induction fuel as [|f IH]; intros sl w L; cbn [chunks_p].
  - destruct sl; [discriminate|cbn in L; lia].
  - rewrite NODE_32. destruct (Nat.ltb_spec (length sl) 32) as [|G]; [discriminate|].
    rewrite firstn_length. replace (Nat.min 32 (length sl)) with 32%nat by lia. cbn [Nat.eqb expect bind].
    destruct (chunks_p f (skipn 32 sl)) eqn:E; cbn [bind]; try discriminate. exfalso. apply (IH (skipn 32 sl) w0); [rewrite skipn_length; lia|exact E]. Qed.
Lemma branch_from_slice_p_total sl w : branch_from_slice_p sl <> Panic w.
Proof. unfold branch_from_slice_p. destruct (negb _); [discriminate|]. destruct (_ <? _); [discriminate|]. apply chunks_p_total. lia. Qed.
Lemma cb_from_slice_p_total xv sl w : cb_from_slice_p xv sl <> Panic w.
Proof. unfold cb_from_slice_p. unfold Totality.lenN. change TAPROOT_CONTROL_BASE_SIZE with 33. rewrite BASE_33.
  destruct (N.ltb_spec (N.of_nat (length sl)) 33) as [|G]; cbn [bind]; [discriminate|].
  rewrite usub_ok by lia. cbn [bind]. destruct (negb _); [discriminate|].
  rewrite (idx_ok sl 0 x00) by lia. cbn [bind].
  assert (P : N.land (b2n (nth 0 sl x00)) 1 < 2). { change 1 with (N.ones 1). rewrite N.land_ones. apply N.mod_lt. discriminate. }
  set (p := N.land (b2n (nth 0 sl x00)) 1) in *.
  assert (T : forall par, (do b0' <- Val (nth 0 sl x00);
      match leafver_from_u8 (N.land (b2n b0') TAPROOT_LEAF_MASK) with
      | Taproot.Err e => Fail (terr_name e)
      | Taproot.Ok ver => do key <- slice sl 1 33; if negb (xv key) then Fail (terr_name InvalidInternalKey) else
          do rest <- slice_from sl 33; do brn <- branch_from_slice_p rest;
          Val {| cb_ver := ver; cb_parity := par; cb_key := key; cb_branch := brn |} end) <> Panic w).
  { intros par. cbn [bind]. destruct (leafver_from_u8 _); [|discriminate]. rewrite slice_ok by lia. cbn [bind]. destruct (negb _); [discriminate|].
    rewrite slice_from_ok by lia. cbn [bind]. destruct (branch_from_slice_p _) eqn:B; cbn [bind]; try discriminate. intros H; inversion H; subst. exact (branch_from_slice_p_total _ _ B). }
  destruct (N.eqb_spec p 0) as [E0|N0]; [|destruct (N.eqb_spec p 1) as [E1|N1]; [|lia]]; cbn [orb expect bind]; apply T. Qed.
Lemma schnorr_pset_total sig_ok bs w : schnorr_pset sig_ok bs <> Panic w.
Proof. unfold schnorr_pset. destruct (Nat.eqb_spec (length bs) 65) as [L|].
  - rewrite (idx_ok bs 64 x00) by lia. cbn [bind]. destruct (sighash_from_u8 _); [|discriminate]. rewrite slice_to_ok by lia. cbn [bind]. destruct (sig_ok _); discriminate.
  - destruct (Nat.eqb_spec (length bs) 64) as [L|]; [|discriminate]. rewrite slice_to_ok by lia. cbn [bind]. destruct (sig_ok _); discriminate. Qed.
Lemma schnorr_from_slice_total sig_ok sl w : schnorr_from_slice sig_ok sl <> Panic w.
Proof. unfold schnorr_from_slice. destruct (Nat.eqb _ 64); [destruct (_ && _); discriminate|]. destruct (rev sl); [discriminate|].
  destruct (sighash_from_u8 _); [|discriminate]. destruct (_ && _); discriminate. Qed.

(* ------------------------------------------------------------------------------------------------ PSET value decoders *)
Lemma scriptver_p_total bs w : scriptver_p bs <> Panic w.
Proof. unfold scriptver_p. destruct bs as [|b r]; [discriminate|]. cbn [Script.is_empty]. set (s := b :: r). assert (L : (1 <= length s)%nat) by (cbn; lia).
  rewrite usub_ok by lia. cbn [bind]. rewrite slice_to_ok by lia. cbn [bind]. rewrite (idx_ok s (length s - 1) x00) by lia. cbn [bind].
  destruct (leafver_from_u8 _); discriminate. Qed.
Lemma xonlyleaf_p_total xv bs w : xonlyleaf_p xv bs <> Panic w.
Proof. unfold xonlyleaf_p. destruct (Nat.ltb_spec (length bs) 32); [discriminate|]. rewrite slice_to_ok by lia. cbn [bind]. destruct (negb _); [discriminate|].
  rewrite slice_from_ok by lia. cbn [bind]. destruct (Nat.eqb _ 32); discriminate. Qed.
Lemma le_dec_len k : forall bs v r, le_dec k bs = Some (v, r) -> length bs = (k + length r)%nat.
Proof. intros bs v r H. apply le_dec_exact in H as [-> _]. rewrite app_length, le_enc_length. reflexivity. Qed.
Lemma u32s_total : forall fuel rest w, (length rest < fuel)%nat -> u32s fuel rest <> Panic w.
Proof. induction fuel as [|f IH]; intros rest w L; [lia|]. cbn [u32s]. destruct rest as [|b r]; [discriminate|].
  destruct (le_dec 4 (b :: r)) as [[v r']|] eqn:D; [|discriminate]. apply le_dec_len in D.
  destruct (u32s f r') eqn:E; cbn [bind]; try discriminate. exfalso. apply (IH r' w0); [lia|exact E]. Qed.
Lemma keysource_p_total bs w : keysource_p bs <> Panic w.
Proof. unfold keysource_p. destruct (_ <? 4)%nat; [discriminate|]. destruct (u32s _ _) eqn:E; cbn [bind]; try discriminate.
  exfalso. apply (u32s_total _ _ w0) in E; [exact E|]. rewrite skipn_length. lia. Qed.
Lemma leafks_p_total maxvec bs w : leafks_p maxvec bs <> Panic w.
Proof. unfold leafks_p. destruct (dec _ bs) as [[hs rest]|]; [|discriminate]. rewrite slice_from_ok by lia. cbn [bind].
  destruct (keysource_p _) eqn:E; cbn [bind]; try discriminate. exfalso. exact (keysource_p_total _ _ E). Qed.
Lemma varbytes_consumes maxvec bs v r : dec (c_varbytes maxvec) bs = Some (v, r) -> (length r < length bs)%nat.
Proof. intros D. pose proof (al_min (alaw_varbytes maxvec) bs v r D) as M. unfold len in M. lia. Qed.
Lemma taptree_loop_total Hleaf Hbranch : forall fuel maxvec bs b w, (length bs < fuel)%nat -> taptree_loop Hleaf Hbranch fuel maxvec bs b <> Panic w.
Proof. induction fuel as [|f IH]; intros maxvec bs b w L; [lia|]. cbn [taptree_loop]. destruct bs as [|depth r1]; [discriminate|]. destruct r1 as [|version r2]; [discriminate|].
  destruct (dec (c_varbytes maxvec) r2) as [[script r3]|] eqn:D; [|discriminate]. pose proof (varbytes_consumes _ _ _ _ D) as C.
  destruct (Nat.ltb_spec 0 (length r2 - length r3)); [|lia]. rewrite usub_ok by lia. cbn [bind].
  destruct (leafver_from_u8 _); [|discriminate]. destruct (Taproot.insert _ _ _ _); [|discriminate]. apply IH. cbn [length] in L. lia. Qed.
Lemma taptree_p_total Hleaf Hbranch maxvec bs w : taptree_p Hleaf Hbranch maxvec bs <> Panic w.
Proof. unfold taptree_p. destruct (taptree_loop _ _ _ _ _ _) eqn:E; cbn [bind]; try discriminate.
  - destruct (Taproot.is_complete _); discriminate.
  - exfalso. apply (taptree_loop_total _ _ _ _ _ _ w0) in E; [exact E|lia]. Qed.

(* ------------------------------------------------------------------------------------------------ PSET count caps *)
Lemma pset_reserve_bound sz count : snd (pset_reserve sz count) <= PSET_MAX_COUNT * sz /\ is_panic (fst (pset_reserve sz count)) = false.
Proof. unfold pset_reserve. destruct (N.ltb_spec PSET_MAX_COUNT count); cbn [fst snd is_panic]; split; try reflexivity; nia. Qed.

(* ------------------------------------------------------------------------------------------------ refinement: the slice parsers written with partial
   operations are the total functions of Model/Taproot.v (the ones C15 proves round trips about and validates against the crate) *)
Definition of_tres {A} (r : Taproot.res terr A) : outcome A := match r with Taproot.Ok a => Val a | Taproot.Err e => Fail (terr_name e) end.
Lemma chunks_p_is_chunks : forall fuel sl, (length sl <= fuel)%nat -> (length sl mod 32 = 0)%nat -> chunks_p fuel sl = Val (chunks fuel NODE_SIZE sl).
Proof. induction fuel as [|f IH]; intros sl L M; cbn [chunks_p chunks].
  - destruct sl; [reflexivity|cbn in L; lia].
  - rewrite NODE_32. change NODE_SIZE with 32%nat. destruct sl as [|b r]; [reflexivity|]. set (s := b :: r) in *.
    assert (G : (32 <= length s)%nat). { assert (length s <> 0)%nat by (cbn; lia). pose proof (Nat.div_mod (length s) 32 ltac:(lia)). lia. }
    destruct (Nat.ltb_spec (length s) 32); [lia|]. rewrite firstn_length. replace (Nat.min 32 (length s)) with 32%nat by lia. cbn [Nat.eqb expect bind].
    rewrite IH; [reflexivity|rewrite skipn_length; lia|]. rewrite skipn_length.
    pose proof (Nat.div_mod (length s) 32 ltac:(lia)) as D. rewrite M in D.
    replace (length s - 32)%nat with (32 * (length s / 32 - 1))%nat by lia. rewrite Nat.mul_comm. apply Nat.mod_mul. lia. Qed.
Lemma branch_from_slice_p_spec sl : branch_from_slice_p sl = of_tres (branch_from_slice sl).
Proof. unfold branch_from_slice_p, branch_from_slice, Totality.lenN. change TAPROOT_CONTROL_NODE_SIZE with 32.
  destruct (N.eqb_spec (N.of_nat (length sl) mod 32) 0) as [M|]; cbn [negb]; [|reflexivity]. destruct (_ <? _); [reflexivity|].
  cbn [of_tres]. apply chunks_p_is_chunks; [lia|]. assert (N.of_nat (length sl mod 32) = 0) by (rewrite Nnat.Nat2N.inj_mod; exact M). lia. Qed.
Lemma cb_from_slice_p_spec xv sl : cb_from_slice_p xv sl = of_tres (cb_from_slice xv sl).
Proof. unfold cb_from_slice_p, cb_from_slice, Totality.lenN. change TAPROOT_CONTROL_BASE_SIZE with 33. rewrite BASE_33. change BASE_SIZE with 33%nat.
  destruct (N.ltb_spec (N.of_nat (length sl)) 33) as [|G]; cbn [bind orb]; [reflexivity|].
  rewrite usub_ok by lia. cbn [bind]. replace (N.of_nat (length sl - 33)) with (N.of_nat (length sl) - 33) by lia.
  destruct (negb _); [reflexivity|]. destruct sl as [|b0 rest]; [cbn in G; lia|].
  rewrite (idx_ok (b0 :: rest) 0 x00) by (cbn; lia). cbn [nth bind].
  assert (P : N.land (b2n b0) 1 < 2). { change 1 with (N.ones 1). rewrite N.land_ones. apply N.mod_lt. discriminate. }
  assert (T : forall par : bool, (do b0' <- Val b0;
      match leafver_from_u8 (N.land (b2n b0') TAPROOT_LEAF_MASK) with
      | Taproot.Err e => Fail (terr_name e)
      | Taproot.Ok ver => do key <- slice (b0 :: rest) 1 33; if negb (xv key) then Fail (terr_name InvalidInternalKey) else
          do rest' <- slice_from (b0 :: rest) 33; do brn <- branch_from_slice_p rest';
          Val {| cb_ver := ver; cb_parity := par; cb_key := key; cb_branch := brn |} end) =
     of_tres (match leafver_from_u8 (N.land (b2n b0) TAPROOT_LEAF_MASK) with
      | Taproot.Err e => Taproot.Err e
      | Taproot.Ok ver => let key := firstn (33 - 1) rest in
          if negb (xv key) then Taproot.Err InvalidInternalKey
          else match branch_from_slice (skipn (33 - 1) rest) with
               | Taproot.Err e => Taproot.Err e
               | Taproot.Ok brn => Taproot.Ok {| cb_ver := ver; cb_parity := par; cb_key := key; cb_branch := brn |} end end)).
  { intros par. cbn [bind]. destruct (leafver_from_u8 _); [|reflexivity]. cbn [length] in G.
    rewrite slice_ok by (cbn [length]; lia). cbn [bind skipn]. change (33 - 1)%nat with 32%nat. cbv zeta. destruct (negb _); [reflexivity|].
    rewrite slice_from_ok by (cbn [length]; lia). cbn [bind skipn]. rewrite branch_from_slice_p_spec. destruct (branch_from_slice _); reflexivity. }
  destruct (N.land (b2n b0) 1) as [|[q|q|]] eqn:Ep; try lia; cbn [N.eqb Pos.eqb orb expect bind]; apply T. Qed.

(* ------------------------------------------------------------------------------------------------ refinement: SegwitHrpstring::new written with partial
   operations is Bech32.segwit_decode under the blech32 configuration (the function C06/C17 are about) *)
Definition symsl (d : bytes) : list N := map (fun c => match from_char c with Some v => v | None => 0 end) d.
Lemma syms_p_valid d : forallb validc d = true -> syms_p d = HOk (symsl d).
Proof. induction d as [|c r IH]; cbn [forallb syms_p symsl map]; [reflexivity|]. unfold validc at 1. intros H. apply andb_true_iff in H as [Hc Hr].
  destruct (from_char c); [|discriminate]. fold (symsl r). now rewrite (IH Hr). Qed.
Lemma syms_of_valid d : forallb validc d = true -> syms_of d = Some (symsl d).
Proof. unfold syms_of. induction d as [|c r IH]; cbn [forallb map Bech32.all_some symsl]; [reflexivity|]. unfold validc at 1. intros H. apply andb_true_iff in H as [Hc Hr].
  destruct (from_char c); [|discriminate]. fold (symsl r). now rewrite (IH Hr). Qed.
Lemma symsl_length d : length (symsl d) = length d. Proof. apply map_length. Qed.
Lemma validate_checksum_p_spec c slen h d : forallb validc d = true ->
  validate_checksum_p c h d = of_res (validate_checksum cfg_blech c slen h (symsl d)).
Proof. intros V. unfold validate_checksum_p, validate_checksum. cbn [cfg_blech sw_code_length]. destruct (Nat.eqb (c_len c) 0); [reflexivity|].
  rewrite symsl_length. destruct (_ <? _)%nat; [reflexivity|]. rewrite (syms_p_valid d V). cbn [hbind]. destruct (valid_codeword _ _); reflexivity. Qed.
Lemma validate_padding_p_spec d : forallb validc d = true -> validate_padding_p d = of_res (validate_padding (symsl d)).
Proof. intros V. unfold validate_padding_p, validate_padding. destruct d as [|c r]; [reflexivity|]. set (d := c :: r) in *.
  assert (NE : symsl d <> []) by (unfold d; cbn; discriminate). destruct (symsl d) as [|v t] eqn:Es; [contradiction|]. rewrite <- Es. rewrite symsl_length.
  destruct (Nat.ltb_spec 4 (length d * 5 mod 8)) as [|P]; [reflexivity|]. rewrite (syms_p_valid d V). cbn [hbind]. rewrite Es at 1. cbn [expect of_outcome hbind].
  destruct (length d * 5 mod 8)%nat as [|[|[|[|[|p]]]]]; cbn [hbind]; try lia.
  - change (N.ones (N.of_nat 0)) with 0. rewrite N.land_0_r. reflexivity.
  - change (N.ones (N.of_nat 1)) with 1. destruct (N.eqb_spec (N.land (last (symsl d) 0) 1) 0) as [->|]; [reflexivity|]. destruct (N.ltb_spec 0 (N.land (last (symsl d) 0) 1)); [reflexivity|lia].
  - change (N.ones (N.of_nat 2)) with 3. destruct (N.eqb_spec (N.land (last (symsl d) 0) 3) 0) as [->|]; [reflexivity|]. destruct (N.ltb_spec 0 (N.land (last (symsl d) 0) 3)); [reflexivity|lia].
  - change (N.ones (N.of_nat 3)) with 7. destruct (N.eqb_spec (N.land (last (symsl d) 0) 7) 0) as [->|]; [reflexivity|]. destruct (N.ltb_spec 0 (N.land (last (symsl d) 0) 7)); [reflexivity|lia].
  - change (N.ones (N.of_nat 4)) with 15. destruct (N.eqb_spec (N.land (last (symsl d) 0) 15) 0) as [->|]; [reflexivity|]. destruct (N.ltb_spec 0 (N.land (last (symsl d) 0) 15)); [reflexivity|lia]. Qed.
Lemma validate_wpl_p_spec ver d : validate_wpl_p ver d = of_res (validate_wpl cfg_blech ver (symsl d)).
Proof. unfold validate_wpl_p, validate_wpl. cbn [cfg_blech sw_len_min sw_len_max sw_len_v0_a sw_len_v0_b]. rewrite symsl_length.
  destruct (_ <? _)%nat; [reflexivity|]. destruct (_ <? _)%nat; [reflexivity|]. destruct (_ && _); reflexivity. Qed.
Lemma data_bytes_valid d : forallb validc d = true -> data_bytes d = fes_to_bytes (symsl d).
Proof. intros V. unfold data_bytes. now rewrite (syms_of_valid d V). Qed.
Lemma symsl_firstn n d : symsl (firstn n d) = firstn n (symsl d). Proof. unfold symsl. now rewrite firstn_map. Qed.

Theorem segwit_new_p_spec s :
  match segwit_new_p s with
  | HOk (h, ver, d) => segwit_decode cfg_blech s = Bech32.Ok (ver, data_bytes d)
  | HErr e => segwit_decode cfg_blech s = Bech32.Err e
  | HPanic _ => False end.
Proof. unfold segwit_new_p, segwit_front, segwit_decode. cbn [cfg_blech sw_max_string sw_max_version sw_code_v0 sw_code_v1].
  pose proof (unchecked_valid s) as UV. rewrite unchecked_new_p_spec in *. destruct (Bech32.unchecked_new s) as [[h d]|e]; cbn [of_res hbind]; [|reflexivity].
  specialize (UV h d eq_refl). rewrite (syms_of_valid d UV). destruct d as [|c r]; [reflexivity|]. cbn [andb Script.is_empty].
  rewrite (idx_ok (c :: r) 0 x00) by (cbn; lia). cbn [nth of_outcome hbind]. pose proof UV as UV'. cbn [forallb] in UV'. apply andb_true_iff in UV' as [Vc Vr]. unfold validc in Vc.
  cbn [symsl map]. fold (symsl r). destruct (from_char c) as [ver|] eqn:Fc; [|discriminate]. cbn [expect of_outcome hbind].
  destruct (BLECH_MAX_WITNESS_VERSION <? ver); [reflexivity|]. cbn [hbind].
  set (code := if ver =? 0 then blech_code BLECH_V0_CODE else blech_code BLECH_V1PLUS_CODE).
  assert (Es : ver :: symsl r = symsl (c :: r)) by (cbn [symsl map]; now rewrite Fc). rewrite Es.
  rewrite (validate_checksum_p_spec code (length s) h (c :: r) UV).
  pose proof (checksum_steps code h (c :: r) UV) as CS. rewrite (validate_checksum_p_spec code (length s) h (c :: r) UV) in CS.
  destruct (validate_checksum cfg_blech code (length s) h (symsl (c :: r))) as [[]|e]; cbn [of_res hbind] in *; [|reflexivity].
  unfold remove_checksum_p in *. destruct (usub (length (c :: r)) (c_len code)) as [n|e0|w0] eqn:Us; cbn [of_outcome hbind] in *;
    [|exfalso; unfold usub in Us; destruct (_ <=? _)%nat; discriminate|contradiction].
  assert (En : n = (length (c :: r) - c_len code)%nat). { unfold usub in Us. destruct (_ <=? _)%nat; inversion Us; reflexivity. }
  destruct (slice_to (c :: r) n) as [d'|e0|w0] eqn:Sl; cbn [of_outcome hbind] in *;
    [|exfalso; unfold slice_to, slice in Sl; destruct (_ && _); discriminate|contradiction].
  assert (Ed : d' = firstn n (c :: r)). { unfold slice_to, slice in Sl. destruct (_ && _); inversion Sl. now rewrite Nat.sub_0_r. }
  rewrite symsl_length, <- En, <- symsl_firstn, <- Ed.
  unfold validate_segwit_p. destruct d' as [|c' r']; [reflexivity|]. rewrite (idx_ok (c' :: r') 0 x00) by (cbn; lia). cbn [nth of_outcome hbind].
  pose proof CS as CS'. cbn [forallb] in CS'. apply andb_true_iff in CS' as [Vc' Vr']. unfold validc in Vc'. cbn [symsl map]. fold (symsl r').
  destruct (from_char c') as [ver'|]; [|discriminate]. cbn [expect of_outcome hbind]. rewrite slice_from_ok by (cbn; lia). cbn [skipn of_outcome hbind].
  rewrite (validate_padding_p_spec r' Vr'). destruct (validate_padding (symsl r')) as [[]|e]; cbn [of_res hbind]; [|reflexivity].
  rewrite validate_wpl_p_spec. destruct (validate_wpl cfg_blech ver' (symsl r')) as [[]|e]; cbn [of_res hbind]; [|reflexivity].
  now rewrite (data_bytes_valid r' Vr'). Qed.

(* ------------------------------------------------------------------------------------------------ integer constructors *)
Lemma seq_floor_spec s v : seq_from_seconds_floor s = Val v <-> s < 65536 * 512 /\ v = N.lor (s / 512) C10_SEQ_LOCK_TYPE_MASK.
Proof. unfold seq_from_seconds_floor, seq_from_512. change C10_SEQ_FLOOR_INTERVAL with 512. destruct (N.ltb_spec (s / 512) 65536) as [L|G].
  - split; [intros [= <-]; split; [lia|reflexivity]|intros [_ ->]; reflexivity].
  - split; [discriminate|intros [L _]; lia]. Qed.
Lemma seq_floor_err s : (exists e, seq_from_seconds_floor s = Fail e) <-> 65536 * 512 <= s.
Proof. unfold seq_from_seconds_floor. change C10_SEQ_FLOOR_INTERVAL with 512. destruct (N.ltb_spec (s / 512) 65536) as [L|G]; split; try (intros [e H]; discriminate); try lia; eauto. Qed.
(* the ceiling: the least i with 512 i >= s *)
Lemma u32_div_ceil_spec s : let i := u32_div_ceil s 512 in s <= 512 * i /\ (i = 0 \/ 512 * (i - 1) < s).
Proof. unfold u32_div_ceil. destruct (N.ltb_spec 0 (s mod 512)); cbv zeta; lia. Qed.
Lemma seq_ceil_spec s v : seq_from_seconds_ceil s = Val v <-> s <= 65535 * 512 /\ v = N.lor ((s + 511) / 512) C10_SEQ_LOCK_TYPE_MASK.
Proof. unfold seq_from_seconds_ceil, seq_from_512. change C10_SEQ_CEIL_INTERVAL with 512.
  assert (E : u32_div_ceil s 512 = (s + 511) / 512) by (unfold u32_div_ceil; destruct (N.ltb_spec 0 (s mod 512)); lia). rewrite E.
  destruct (N.ltb_spec ((s + 511) / 512) 65536) as [L|G].
  - split; [intros [= <-]; split; [lia|reflexivity]|intros [_ ->]; reflexivity].
  - split; [discriminate|intros [L _]; lia]. Qed.
Lemma seq_ceil_err s : (exists e, seq_from_seconds_ceil s = Fail e) <-> 65535 * 512 < s.
Proof. unfold seq_from_seconds_ceil. change C10_SEQ_CEIL_INTERVAL with 512.
  assert (E : u32_div_ceil s 512 = (s + 511) / 512) by (unfold u32_div_ceil; destruct (N.ltb_spec 0 (s mod 512)); lia). rewrite E.
  destruct (N.ltb_spec ((s + 511) / 512) 65536) as [L|G]; split; try (intros [e H]; discriminate); try lia; eauto. Qed.
Lemma lt_height_time_spec n : (lt_from_height n = Val n <-> n < 500000000) /\ (lt_from_time n = Val n <-> 500000000 <= n)
  /\ ((exists e, lt_from_height n = Fail e) <-> 500000000 <= n) /\ ((exists e, lt_from_time n = Fail e) <-> n < 500000000).
Proof. unfold lt_from_height, lt_from_time, is_block_height. change C10_LOCK_TIME_THRESHOLD with 500000000.
  destruct (N.ltb_spec n 500000000); repeat split; intros; try lia; try reflexivity; try discriminate; eauto;
    match goal with H : exists _, _ |- _ => destruct H; discriminate end. Qed.
