(* Lemmas about Model/Verify.v (verify_tx_amt_proofs in the ideal-commitment world). *)
From Coq Require Import List NArith ZArith Bool Lia Setoid Morphisms.
From Coq.Strings Require Import Byte.
From EV Require Import Base.Bytes Base.Zn Base.FreeMod Model.Script Model.Ideal Model.Verify Model.Blind Proofs.Ideal.
Import ListNotations.
Open Scope Z_scope.

(* ---- what it means that secrets open a spent output *)
Definition asset_opened (u : txout) (s : secrets) : Prop :=
  (o_asset u = AExp (s_asset s) /\ s_abf s = 0) \/ (exists g, o_asset u = AConf g /\ geq g (sgen s)).
Definition value_opened (u : txout) (s : secrets) : Prop :=
  (o_value u = VExp (s_value s) /\ s_vbf s = 0 /\ 0 < s_value s < qn) \/ (exists c, o_value u = VConf c /\ geq c (scommit s)).
Definition amount_ok (v : cvalue) : Prop := v = VNull \/ exists x, v = VExp x /\ 0 < x < qn.
Definition iss_ok (i : txin) : Prop := amount_ok (is_amount (in_iss i)) /\ amount_ok (is_keys (in_iss i)).
(* the secrets list follows the inputs: spent output, then its explicit issuance pseudo-inputs *)
Inductive opens : list txin -> list txout -> list secrets -> Prop :=
  | opens_nil : opens [] [] []
  | opens_cons inp u s ins spent ss :
      asset_opened u s -> value_opened u s -> iss_ok inp -> opens ins spent ss ->
      opens (inp :: ins) (u :: spent) (s :: iss_secrets inp ++ ss).

Lemma opens_length ins spent ss : opens ins spent ss -> length spent = length ins.
Proof. induction 1; cbn; congruence. Qed.

Lemma get_asset_gen_opened u s : asset_opened u s -> exists g, get_asset_gen u = OVal g /\ geq g (sgen s).
Proof.
  unfold get_asset_gen. intros [[-> A]|(g & -> & G)].
  - exists (gH (s_asset s)). split; [reflexivity|]. unfold sgen. rewrite A. symmetry. apply asset_gen_0.
  - now exists g.
Qed.
Lemma get_value_commit_opened u s : asset_opened u s -> value_opened u s ->
  exists c, get_value_commit u = OVal c /\ geq c (scommit s).
Proof.
  intros A [(V & B & R)|(c & V & C)]; unfold get_value_commit; rewrite V.
  - destruct (Z.eqb_spec (s_value s) 0) as [Z0|_]; [lia|].
    destruct (get_asset_gen_opened u s A) as (g & -> & G). cbn [obind]. unfold pedersen_unblinded.
    assert (E : geq (commit (s_value s) g 0) (scommit s)). { unfold scommit. now rewrite G, B. }
    destruct (geqb (commit (s_value s) g 0) gzero) eqn:Z.
    + exfalso. apply geqb_spec in Z. rewrite E in Z. revert Z. unfold scommit, sgen. now apply commit_nonzero.
    + now exists (commit (s_value s) g 0).
  - now exists c.
Qed.

Lemma Forall2_app_geq a a' b b' : Forall2 geq a a' -> Forall2 geq b b' -> Forall2 geq (a ++ b) (a' ++ b').
Proof. apply Forall2_app. Qed.

Lemma pedersen_unblinded_H {E} v a : 0 < v < qn -> @pedersen_unblinded E v (gH a) = OVal (commit v (gH a) 0).
Proof.
  intro V. unfold pedersen_unblinded. destruct (geqb (commit v (gH a) 0) gzero) eqn:Z; [|reflexivity].
  exfalso. apply geqb_spec in Z. revert Z. now apply commit_H_nonzero.
Qed.
Lemma sgen_iss a v : geq (gH a) (sgen (mkSec a 0 v 0)).
Proof. unfold sgen. cbn. symmetry. apply asset_gen_0. Qed.
Lemma scommit_iss a v : geq (commit v (gH a) 0) (scommit (mkSec a 0 v 0)).
Proof. unfold scommit. cbn [s_value s_vbf]. now rewrite <- sgen_iss. Qed.

Lemma issuance_commits_ok i : iss_ok i ->
  exists dom com, issuance_commits i = OVal (dom, com)
    /\ Forall2 geq dom (map sgen (iss_secrets i)) /\ Forall2 geq com (map scommit (iss_secrets i)).
Proof.
  intros [A K]. unfold issuance_commits, iss_secrets. destruct (has_issuance i).
  2:{ exists [], []. repeat split; constructor. }
  destruct A as [->|(x & -> & X)], K as [->|(y & -> & Y)]; cbn [fold_left fst snd obind app map];
    rewrite ?pedersen_unblinded_H by assumption; cbn [obind app].
  - exists [], []. repeat split; constructor.
  - eexists _, _. split; [reflexivity|]. split; repeat constructor. + apply sgen_iss. + apply scommit_iss.
  - eexists _, _. split; [reflexivity|]. split; repeat constructor. + apply sgen_iss. + apply scommit_iss.
  - eexists _, _. split; [reflexivity|]. split; repeat constructor; try apply sgen_iss; apply scommit_iss.
Qed.

Lemma verify_inputs_ok ins spent ss : opens ins spent ss -> forall i,
  exists dom com, verify_inputs ins spent i = OVal (dom, com)
    /\ Forall2 geq dom (map sgen ss) /\ Forall2 geq com (map scommit ss).
Proof.
  induction 1 as [|inp u s ins spent ss A V I O IH]; intro i; cbn [verify_inputs].
  - exists [], []. repeat split; constructor.
  - destruct (get_asset_gen_opened u s A) as (g & -> & G).
    destruct (get_value_commit_opened u s A V) as (c & -> & C).
    destruct (issuance_commits_ok inp I) as (idom & icom & -> & ID & IC).
    destruct (IH (S i)) as (dom & com & -> & D & Cm). cbn [map_err obind].
    exists (g :: idom ++ dom), (c :: icom ++ com). split; [reflexivity|].
    cbn [map]. rewrite !map_app. split; constructor; try assumption; now apply Forall2_app.
Qed.

(* coefficients of a sum of commitments *)
Lemma coeff_gsum_geq com ss k : Forall2 geq com (map scommit ss) ->
  coeff (gsum com) k = zsum (map (fun s => coeff (scommit s) k) ss).
Proof.
  rewrite coeff_gsum. revert com. induction ss as [|s ss IH]; intros com F; inversion F; subst; cbn [map zsum fold_right].
  - reflexivity.
  - fold (zsum (map (fun x => coeff x k) l)). fold (zsum (map (fun s => coeff (scommit s) k) ss)). rewrite (IH _ H3).
    f_equal. match goal with E : geq _ (scommit s) |- _ => apply E end.
Qed.

(* ================================================================== C05: what acceptance means *)
Lemma verify_ok_inv T spent : verify_tx_amt_proofs T spent = OVal tt <->
  length spent = length (t_in T) /\ exists dom coms ocoms,
    verify_inputs (t_in T) spent 0 = OVal (dom, coms) /\ verify_outputs dom (t_out T) 0 = OVal ocoms /\ geq (gsum coms) (gsum ocoms).
Proof.
  unfold verify_tx_amt_proofs. split.
  - destruct (Nat.eqb_spec (length spent) (length (t_in T))) as [L|L]; cbn [negb]; [|discriminate].
    destruct (verify_inputs (t_in T) spent 0) as [[dom coms]| |] eqn:VI; cbn [obind]; try discriminate.
    destruct (verify_outputs dom (t_out T) 0) as [ocoms| |] eqn:VO; cbn [obind]; try discriminate.
    unfold verify_commitments_sum_to_equal. destruct (geqb (gsum coms) (gsum ocoms)) eqn:B; cbn [negb]; [|discriminate].
    intros _. split; [exact L|]. exists dom, coms, ocoms. split; [reflexivity|]. split; [exact VO|]. now apply geqb_spec.
  - intros (L & dom & coms & ocoms & -> & VO & B). rewrite L, Nat.eqb_refl. cbn [negb obind]. rewrite VO. cbn [obind].
    unfold verify_commitments_sum_to_equal. apply geqb_spec in B. rewrite B. reflexivity.
Qed.
Theorem verify_len_mismatch T spent : length spent <> length (t_in T) -> verify_tx_amt_proofs T spent = OFail UtxoInputLenMismatch.
Proof. intro L. unfold verify_tx_amt_proofs. destruct (Nat.eqb_spec (length spent) (length (t_in T))); [contradiction|reflexivity]. Qed.

(* per-output view of the second loop *)
Lemma verify_outputs_nth dom : forall outs k cs, verify_outputs dom outs k = OVal cs ->
  length cs = length outs /\ forall j o, nth_error outs j = Some o -> exists c, verify_output dom (k + j) o = OVal c /\ nth_error cs j = Some c.
Proof.
  induction outs as [|o outs IH]; intros k cs; cbn [verify_outputs].
  - intros [= <-]. split; [reflexivity|]. intros [|j] ? H; discriminate H.
  - destruct (verify_output dom k o) as [c| |] eqn:V; cbn [obind]; try discriminate.
    destruct (verify_outputs dom outs (S k)) as [cs'| |] eqn:R; cbn [obind]; try discriminate. intros [= <-].
    destruct (IH _ _ R) as [L N]. split; [cbn; congruence|]. intros [|j] o' NE; cbn [nth_error] in *.
    + injection NE as <-. exists c. rewrite Nat.add_0_r. auto.
    + destruct (N _ _ NE) as (c' & V' & NC). exists c'. split; [|exact NC]. replace (k + S j)%nat with (S k + j)%nat by lia. exact V'.
Qed.
Lemma verify_outputs_all dom : forall outs k cs, length cs = length outs ->
  (forall j o, nth_error outs j = Some o -> exists c, verify_output dom (k + j) o = OVal c /\ nth_error cs j = Some c) ->
  verify_outputs dom outs k = OVal cs.
Proof.
  induction outs as [|o outs IH]; intros k [|c cs] L H; cbn in L; try discriminate; cbn [verify_outputs]. - reflexivity.
  - destruct (H 0%nat o eq_refl) as (c' & V & NC). rewrite Nat.add_0_r in V. cbn in NC. injection NC as ->. rewrite V. cbn [obind].
    rewrite (IH (S k) cs); [reflexivity|lia|]. intros j o' NE. destruct (H (S j) o' NE) as (c'' & V' & NC').
    exists c''. split; [|exact NC']. replace (S k + j)%nat with (k + S j)%nat by lia. exact V'.
Qed.
(* the index only labels the error *)
Lemma verify_output_index dom k k' o c : verify_output dom k o = OVal c -> verify_output dom k' o = OVal c.
Proof.
  unfold verify_output. destruct (get_value_commit o) as [c0| |]; cbn [map_err obind]; try discriminate.
  destruct (o_value o) as [|v|comm].
  - cbn [obind]. destruct (o_asset o) as [| |g]; cbn [obind]; try (intro H; exact H).
    destruct (o_sp o) as [sp|]; [|discriminate]. destruct (sp_verify sp g dom); [intro H; exact H|discriminate].
  - cbn [obind]. destruct (o_asset o) as [| |g]; cbn [obind]; try (intro H; exact H).
    destruct (o_sp o) as [sp|]; [|discriminate]. destruct (sp_verify sp g dom); [intro H; exact H|discriminate].
  - destruct (get_asset_gen o) as [g0| |]; cbn [map_err obind]; try discriminate.
    destruct (o_rp o) as [rp|]; [|discriminate]. destruct (rp_verify rp comm (o_script o) g0); cbn [obind]; [|discriminate].
    destruct (o_asset o) as [| |g]; cbn [obind]; try (intro H; exact H).
    destruct (o_sp o) as [sp|]; [|discriminate]. destruct (sp_verify sp g dom); [intro H; exact H|discriminate].
Qed.
(* what one accepted output guarantees *)
Lemma verify_output_inv dom k o c : verify_output dom k o = OVal c ->
  get_value_commit o = OVal c
  /\ (forall comm, o_value o = VConf comm -> exists gen rp, get_asset_gen o = OVal gen /\ o_rp o = Some rp /\ rp_verify rp comm (o_script o) gen = true)
  /\ (forall g, o_asset o = AConf g -> exists sp, o_sp o = Some sp /\ sp_verify sp g dom = true).
Proof.
  unfold verify_output. destruct (get_value_commit o) as [c0| |]; cbn [map_err obind]; try discriminate.
  destruct (o_value o) as [|v|comm] eqn:V.
  - cbn [obind]. destruct (o_asset o) as [| |g] eqn:A; cbn [obind].
    + intros [= <-]. repeat split; intros; discriminate.
    + intros [= <-]. repeat split; intros; discriminate.
    + destruct (o_sp o) as [sp|]; [|discriminate]. destruct (sp_verify sp g dom) eqn:S; [|discriminate]. intros [= <-].
      repeat split; try (intros; discriminate). intros g' [= <-]. now exists sp.
  - cbn [obind]. destruct (o_asset o) as [| |g] eqn:A; cbn [obind].
    + intros [= <-]. repeat split; intros; discriminate.
    + intros [= <-]. repeat split; intros; discriminate.
    + destruct (o_sp o) as [sp|]; [|discriminate]. destruct (sp_verify sp g dom) eqn:S; [|discriminate]. intros [= <-].
      repeat split; try (intros; discriminate). intros g' [= <-]. now exists sp.
  - destruct (get_asset_gen o) as [g0| |]; cbn [map_err obind]; try discriminate.
    destruct (o_rp o) as [rp|]; [|discriminate]. destruct (rp_verify rp comm (o_script o) g0) eqn:R; cbn [obind]; [|discriminate].
    destruct (o_asset o) as [| |g] eqn:A; cbn [obind].
    + intros [= <-]. split; [reflexivity|]. split; [intros comm0 [= <-]; now exists g0, rp|intros; discriminate].
    + intros [= <-]. split; [reflexivity|]. split; [intros comm0 [= <-]; now exists g0, rp|intros; discriminate].
    + destruct (o_sp o) as [sp|]; [|discriminate]. destruct (sp_verify sp g dom) eqn:S; [|discriminate]. intros [= <-].
      split; [reflexivity|]. split; [intros comm0 [= <-]; now exists g0, rp|]. intros g' [= <-]. now exists sp.
Qed.
