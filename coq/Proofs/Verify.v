(* Lemmas about Model/Verify.v (verify_tx_amt_proofs in the ideal-commitment world). *)
From Coq Require Import List NArith ZArith Bool Lia Setoid Morphisms.
From Coq.Strings Require Import Byte.
From EV Require Import Base.Bytes Base.Zn Base.FreeMod Model.Script Model.Ideal Model.Verify Model.Blind Proofs.Ideal.
Import ListNotations.
Open Scope Z_scope.

(* ---- what it means that secrets open a spent output *)
Definition asset_opened (u : txout) (s : secrets) : Prop :=
  (o_asset u = AExp (s_asset s) /\ s_abf s = 0) \/ (exists g, o_asset u = AConf g /\ geq g (sgen s)).
Definition value_opened (u : txout) (s : secrets) : Prop :=
  (o_value u = VExp (s_value s) /\ s_vbf s = 0 /\ 0 < s_value s < qn) \/ (exists c, o_value u = VConf c /\ geq c (scommit s)).
Definition amount_ok (v : cvalue) : Prop := v = VNull \/ exists x, v = VExp x /\ 0 < x < qn.
Definition iss_ok (i : txin) : Prop := amount_ok (is_amount (in_iss i)) /\ amount_ok (is_keys (in_iss i)).
(* the secrets list follows the inputs: spent output, then its explicit issuance pseudo-inputs *)
Inductive opens : list txin -> list txout -> list secrets -> Prop :=
  | opens_nil : opens [] [] []
  | opens_cons inp u s ins spent ss :
      asset_opened u s -> value_opened u s -> iss_ok inp -> opens ins spent ss ->
      opens (inp :: ins) (u :: spent) (s :: iss_secrets inp ++ ss).

Lemma opens_length ins spent ss : opens ins spent ss -> length spent = length ins.
Proof. induction 1; cbn; congruence. Qed.

Lemma get_asset_gen_opened u s : asset_opened u s -> exists g, get_asset_gen u = OVal g /\ geq g (sgen s).
Proof.
  unfold get_asset_gen. intros [[-> A]|(g & -> & G)].
  - exists (gH (s_asset s)). split; [reflexivity|]. unfold sgen. rewrite A. symmetry. apply asset_gen_0.
  - now exists g.
Qed.
Lemma get_value_commit_opened u s : asset_opened u s -> value_opened u s ->
  exists c, get_value_commit u = OVal c /\ geq c (scommit s).
Proof.
  intros A [(V & B & R)|(c & V & C)]; unfold get_value_commit; rewrite V.
  - destruct (Z.eqb_spec (s_value s) 0) as [Z0|_]; [lia|].
    destruct (get_asset_gen_opened u s A) as (g & -> & G). cbn [obind]. unfold pedersen_unblinded.
    assert (E : geq (commit (s_value s) g 0) (scommit s)). { unfold scommit. now rewrite G, B. }
    destruct (geqb (commit (s_value s) g 0) gzero) eqn:Z.
    + exfalso. apply geqb_spec in Z. rewrite E in Z. revert Z. unfold scommit, sgen. now apply commit_nonzero.
    + now exists (commit (s_value s) g 0).
  - now exists c.
Qed.

Lemma Forall2_app_geq a a' b b' : Forall2 geq a a' -> Forall2 geq b b' -> Forall2 geq (a ++ b) (a' ++ b').
Proof. apply Forall2_app. Qed.

Lemma pedersen_unblinded_H {E} v a : 0 < v < qn -> @pedersen_unblinded E v (gH a) = OVal (commit v (gH a) 0).
Proof.
  intro V. unfold pedersen_unblinded. destruct (geqb (commit v (gH a) 0) gzero) eqn:Z; [|reflexivity].
  exfalso. apply geqb_spec in Z. revert Z. now apply commit_H_nonzero.
Qed.
Lemma sgen_iss a v : geq (gH a) (sgen (mkSec a 0 v 0)).
Proof. unfold sgen. cbn. symmetry. apply asset_gen_0. Qed.
Lemma scommit_iss a v : geq (commit v (gH a) 0) (scommit (mkSec a 0 v 0)).
Proof. unfold scommit. cbn [s_value s_vbf]. now rewrite <- sgen_iss. Qed.

Lemma nz_eqb v : 0 < v < qn -> (v =? 0) = false. Proof. intro H. apply Z.eqb_neq. lia. Qed.
Lemma issuance_commits_ok i : iss_ok i ->
  exists dom com, issuance_commits i = OVal (dom, com)
    /\ Forall2 geq dom (map sgen (iss_secrets i)) /\ Forall2 geq com (map scommit (iss_secrets i)).
Proof.
  intros [A K]. unfold issuance_commits, iss_secrets. destruct (has_issuance i).
  2:{ exists [], []. repeat split; constructor. }
  destruct A as [->|(x & -> & X)], K as [->|(y & -> & Y)]; cbn [fold_left fst snd obind app map];
    rewrite ?(nz_eqb _ X), ?(nz_eqb _ Y); cbn [fold_left fst snd obind app map];
    rewrite ?pedersen_unblinded_H by assumption; cbn [obind app]; rewrite ?(nz_eqb _ Y); rewrite ?pedersen_unblinded_H by assumption; cbn [obind app].
  - exists [], []. repeat split; constructor.
  - eexists _, _. split; [reflexivity|]. split; repeat constructor. + apply sgen_iss. + apply scommit_iss.
  - eexists _, _. split; [reflexivity|]. split; repeat constructor. + apply sgen_iss. + apply scommit_iss.
  - eexists _, _. split; [reflexivity|]. split; repeat constructor; try apply sgen_iss; apply scommit_iss.
Qed.

Lemma verify_inputs_ok ins spent ss : opens ins spent ss -> forall i,
  exists dom com, verify_inputs ins spent i = OVal (dom, com)
    /\ Forall2 geq dom (map sgen ss) /\ Forall2 geq com (map scommit ss).
Proof.
  induction 1 as [|inp u s ins spent ss A V I O IH]; intro i; cbn [verify_inputs].
  - exists [], []. repeat split; constructor.
  - destruct (get_asset_gen_opened u s A) as (g & -> & G).
    destruct (get_value_commit_opened u s A V) as (c & -> & C).
    destruct (issuance_commits_ok inp I) as (idom & icom & -> & ID & IC).
    destruct (IH (S i)) as (dom & com & -> & D & Cm). cbn [map_err obind].
    exists (g :: idom ++ dom), (c :: icom ++ com). split; [reflexivity|].
    cbn [map]. rewrite !map_app. split; constructor; try assumption; now apply Forall2_app.
Qed.

(* coefficients of a sum of commitments *)
Lemma coeff_gsum_geq com ss k : Forall2 geq com (map scommit ss) ->
  coeff (gsum com) k = zsum (map (fun s => coeff (scommit s) k) ss).
Proof.
  rewrite coeff_gsum. revert com. induction ss as [|s ss IH]; intros com F; inversion F; subst; cbn [map zsum fold_right].
  - reflexivity.
  - fold (zsum (map (fun x => coeff x k) l)). fold (zsum (map (fun s => coeff (scommit s) k) ss)). rewrite (IH _ H3).
    f_equal. match goal with E : geq _ (scommit s) |- _ => apply E end.
Qed.

(* ================================================================== C05: what acceptance means *)
(* the commitment an iteration contributes: nothing for a skipped output *)
Definition oc2g (o : option gel) : gel := match o with Some c => c | None => gzero end.
Lemma gsum_out_commits l : geq (gsum (out_commits l)) (gsum (map oc2g l)).
Proof.
  induction l as [|[c|] l IH]; cbn [out_commits flat_map map app oc2g]; [reflexivity| |]; fold (out_commits l).
  - change (geq (gadd c (gsum (out_commits l))) (gadd c (gsum (map oc2g l)))). now rewrite IH.
  - exact IH.
Qed.
Lemma out_commits_somes cs : out_commits (map Some cs) = cs.
Proof. induction cs as [|c cs IH]; cbn [map out_commits flat_map app]; [reflexivity|]. fold (out_commits (map Some cs)). now rewrite IH. Qed.
Lemma skipped_spec o : skipped o = true <-> o_value o = VExp 0 /\ is_provably_unspendable (o_script o) = true.
Proof.
  unfold skipped, get_value_commit. destruct (o_value o) as [|v|c]; try (split; [discriminate|intros [H _]; discriminate H]).
  destruct (Z.eqb_spec v 0) as [->|NZ].
  - destruct (is_provably_unspendable (o_script o)); split; try discriminate; auto. intros [_ H]. discriminate H.
  - split.
    + unfold get_asset_gen. destruct (o_asset o); cbn [obind]; try discriminate; unfold pedersen_unblinded; destruct (geqb _ gzero); discriminate.
    + intros [E _]. congruence.
Qed.
Lemma skipped_same o o' : o_value o' = o_value o -> o_script o' = o_script o -> skipped o' = skipped o.
Proof.
  intros V S. destruct (skipped o) eqn:E.
  - apply skipped_spec. apply skipped_spec in E. now rewrite V, S.
  - destruct (skipped o') eqn:E'; [|reflexivity]. apply skipped_spec in E'. rewrite V, S in E'. apply skipped_spec in E'. congruence.
Qed.
Lemma skipped_conf o c : o_value o = VConf c -> skipped o = false.
Proof. intro V. destruct (skipped o) eqn:E; [|reflexivity]. apply skipped_spec in E as [E _]. congruence. Qed.
Lemma verify_ok_inv T spent : verify_tx_amt_proofs T spent = OVal tt <->
  length spent = length (t_in T) /\ exists dom coms ocoms,
    verify_inputs (t_in T) spent 0 = OVal (dom, coms) /\ verify_outputs dom (t_out T) 0 = OVal ocoms /\ geq (gsum coms) (gsum (map oc2g ocoms)).
Proof.
  unfold verify_tx_amt_proofs. split.
  - destruct (Nat.eqb_spec (length spent) (length (t_in T))) as [L|L]; cbn [negb]; [|discriminate].
    destruct (verify_inputs (t_in T) spent 0) as [[dom coms]| |] eqn:VI; cbn [obind]; try discriminate.
    destruct (verify_outputs dom (t_out T) 0) as [ocoms| |] eqn:VO; cbn [obind]; try discriminate.
    unfold verify_commitments_sum_to_equal. destruct (geqb (gsum coms) (gsum (out_commits ocoms))) eqn:B; cbn [negb]; [|discriminate].
    intros _. split; [exact L|]. exists dom, coms, ocoms. split; [reflexivity|]. split; [exact VO|]. apply geqb_spec in B. now rewrite B, gsum_out_commits.
  - intros (L & dom & coms & ocoms & -> & VO & B). rewrite L, Nat.eqb_refl. cbn [negb obind]. rewrite VO. cbn [obind].
    unfold verify_commitments_sum_to_equal. rewrite <- gsum_out_commits in B. apply geqb_spec in B. rewrite B. reflexivity.
Qed.
Theorem verify_len_mismatch T spent : length spent <> length (t_in T) -> verify_tx_amt_proofs T spent = OFail UtxoInputLenMismatch.
Proof. intro L. unfold verify_tx_amt_proofs. destruct (Nat.eqb_spec (length spent) (length (t_in T))); [contradiction|reflexivity]. Qed.

(* per-output view of the second loop *)
Lemma verify_outputs_nth dom : forall outs k cs, verify_outputs dom outs k = OVal cs ->
  length cs = length outs /\ forall j o, nth_error outs j = Some o -> exists c, verify_output_step dom (k + j) o = OVal c /\ nth_error cs j = Some c.
Proof.
  induction outs as [|o outs IH]; intros k cs; cbn [verify_outputs].
  - intros [= <-]. split; [reflexivity|]. intros [|j] ? H; discriminate H.
  - destruct (verify_output_step dom k o) as [c| |] eqn:V; cbn [obind]; try discriminate.
    destruct (verify_outputs dom outs (S k)) as [cs'| |] eqn:R; cbn [obind]; try discriminate. intros [= <-].
    destruct (IH _ _ R) as [L N]. split; [cbn; congruence|]. intros [|j] o' NE; cbn [nth_error] in *.
    + injection NE as <-. exists c. rewrite Nat.add_0_r. auto.
    + destruct (N _ _ NE) as (c' & V' & NC). exists c'. split; [|exact NC]. replace (k + S j)%nat with (S k + j)%nat by lia. exact V'.
Qed.
Lemma verify_outputs_all dom : forall outs k cs, length cs = length outs ->
  (forall j o, nth_error outs j = Some o -> exists c, verify_output_step dom (k + j) o = OVal c /\ nth_error cs j = Some c) ->
  verify_outputs dom outs k = OVal cs.
Proof.
  induction outs as [|o outs IH]; intros k [|c cs] L H; cbn in L; try discriminate; cbn [verify_outputs]. - reflexivity.
  - destruct (H 0%nat o eq_refl) as (c' & V & NC). rewrite Nat.add_0_r in V. cbn in NC. injection NC as ->. rewrite V. cbn [obind].
    rewrite (IH (S k) cs); [reflexivity|lia|]. intros j o' NE. destruct (H (S j) o' NE) as (c'' & V' & NC').
    exists c''. split; [|exact NC']. replace (S k + j)%nat with (k + S j)%nat by lia. exact V'.
Qed.
(* the index only labels the error *)
Lemma verify_output_index dom k k' o c : verify_output dom k o = OVal c -> verify_output dom k' o = OVal c.
Proof.
  unfold verify_output. destruct (get_value_commit o) as [c0| |]; cbn [map_err obind]; try discriminate.
  destruct (o_value o) as [|v|comm].
  - cbn [obind]. destruct (o_asset o) as [| |g]; cbn [obind]; try (intro H; exact H).
    destruct (o_sp o) as [sp|]; [|discriminate]. destruct (sp_verify sp g dom); [intro H; exact H|discriminate].
  - cbn [obind]. destruct (o_asset o) as [| |g]; cbn [obind]; try (intro H; exact H).
    destruct (o_sp o) as [sp|]; [|discriminate]. destruct (sp_verify sp g dom); [intro H; exact H|discriminate].
  - destruct (get_asset_gen o) as [g0| |]; cbn [map_err obind]; try discriminate.
    destruct (o_rp o) as [rp|]; [|discriminate]. destruct (rp_verify rp comm (o_script o) g0); cbn [obind]; [|discriminate].
    destruct (o_asset o) as [| |g]; cbn [obind]; try (intro H; exact H).
    destruct (o_sp o) as [sp|]; [|discriminate]. destruct (sp_verify sp g dom); [intro H; exact H|discriminate].
Qed.
(* what one accepted output guarantees *)
Lemma verify_output_inv dom k o c : verify_output dom k o = OVal c ->
  get_value_commit o = OVal c
  /\ (forall comm, o_value o = VConf comm -> exists gen rp, get_asset_gen o = OVal gen /\ o_rp o = Some rp /\ rp_verify rp comm (o_script o) gen = true)
  /\ (forall g, o_asset o = AConf g -> exists sp, o_sp o = Some sp /\ sp_verify sp g dom = true).
Proof.
  unfold verify_output. destruct (get_value_commit o) as [c0| |]; cbn [map_err obind]; try discriminate.
  destruct (o_value o) as [|v|comm] eqn:V.
  - cbn [obind]. destruct (o_asset o) as [| |g] eqn:A; cbn [obind].
    + intros [= <-]. repeat split; intros; discriminate.
    + intros [= <-]. repeat split; intros; discriminate.
    + destruct (o_sp o) as [sp|]; [|discriminate]. destruct (sp_verify sp g dom) eqn:S; [|discriminate]. intros [= <-].
      repeat split; try (intros; discriminate). intros g' [= <-]. now exists sp.
  - cbn [obind]. destruct (o_asset o) as [| |g] eqn:A; cbn [obind].
    + intros [= <-]. repeat split; intros; discriminate.
    + intros [= <-]. repeat split; intros; discriminate.
    + destruct (o_sp o) as [sp|]; [|discriminate]. destruct (sp_verify sp g dom) eqn:S; [|discriminate]. intros [= <-].
      repeat split; try (intros; discriminate). intros g' [= <-]. now exists sp.
  - destruct (get_asset_gen o) as [g0| |]; cbn [map_err obind]; try discriminate.
    destruct (o_rp o) as [rp|]; [|discriminate]. destruct (rp_verify rp comm (o_script o) g0) eqn:R; cbn [obind]; [|discriminate].
    destruct (o_asset o) as [| |g] eqn:A; cbn [obind].
    + intros [= <-]. split; [reflexivity|]. split; [intros comm0 [= <-]; now exists g0, rp|intros; discriminate].
    + intros [= <-]. split; [reflexivity|]. split; [intros comm0 [= <-]; now exists g0, rp|intros; discriminate].
    + destruct (o_sp o) as [sp|]; [|discriminate]. destruct (sp_verify sp g dom) eqn:S; [|discriminate]. intros [= <-].
      split; [reflexivity|]. split; [intros comm0 [= <-]; now exists g0, rp|]. intros g' [= <-]. now exists sp.
Qed.

(* ================================================================== every generator of an accepted transaction is H_a + r·G *)
Definition opened_gen (g : gel) : Prop := exists a abf, geq g (asset_gen a abf).
Lemma opened_gen_geq g g' : geq g g' -> opened_gen g' -> opened_gen g.
Proof. intros E (a & abf & G). exists a, abf. now rewrite E. Qed.
Lemma asset_gen_add a abf r : geq (gadd (asset_gen a abf) (gscale r gG)) (asset_gen a (zadd abf r)).
Proof.
  intro k. unfold asset_gen. rewrite !coeff_add, !coeff_scale, coeff_G, coeff_H.
  destruct (N.eqb k (kH a)), (N.eqb k kG); zn_ring.
Qed.
Lemma Forall2_geq_nth l l' : Forall2 geq l l' -> forall i d, nth_error l i = Some d -> exists d', nth_error l' i = Some d' /\ geq d d'.
Proof. induction 1 as [|x y l l' E F IH]; intros [|i] d NE; cbn in *; try discriminate. - injection NE as <-. now exists y. - now apply IH. Qed.
Lemma dom_opened dom ss : Forall2 geq dom (map sgen ss) -> Forall opened_gen dom.
Proof.
  revert dom. induction ss as [|s ss IH]; intros dom F; inversion F; subst; constructor.
  - exists (s_asset s), (s_abf s). assumption. - now apply IH.
Qed.
(* the generator of an accepted output, with the asset it carries *)
Lemma out_gen_opened dom k o c : Forall opened_gen dom -> verify_output dom k o = OVal c ->
  forall g, get_asset_gen o = OVal g -> opened_gen g.
Proof.
  intros D V g G. destruct (verify_output_inv _ _ _ _ V) as (_ & _ & SP). unfold get_asset_gen in G.
  destruct (o_asset o) as [|a|g0] eqn:A; try discriminate; injection G as <-.
  - exists a, 0. symmetry. apply asset_gen_0.
  - destruct (SP g0 eq_refl) as (sp & _ & SV). destruct (sp_verify_sound _ _ _ SV) as (d & ND & E & _).
    rewrite Forall_forall in D. destruct (D d (nth_error_In _ _ ND)) as (a & abf & Ed).
    exists a, (zadd abf (sp_diff sp)). rewrite E, Ed. apply asset_gen_add.
Qed.

(* ---- C05_sound: acceptance implies openings of all outputs that balance per asset AS INTEGERS *)
(* `s` opens the output `o` whose value commitment (as verify computes it) is `c` *)
Definition out_opened (o : txout) (c : gel) (s : secrets) : Prop :=
  (exists g, get_asset_gen o = OVal g /\ geq g (sgen s)) /\ get_value_commit o = OVal c /\ geq c (scommit s)
  /\ (forall v, o_value o = VExp v -> s_value s = v) /\ (forall a, o_asset o = AExp a -> s_asset s = a).
(* the proofs an accepted output carries are proofs for THAT output *)
Definition proofs_for (dom : list gel) (o : txout) : Prop :=
  (forall comm, o_value o = VConf comm -> exists gen rp, get_asset_gen o = OVal gen /\ o_rp o = Some rp /\ rp_verify rp comm (o_script o) gen = true)
  /\ (forall g, o_asset o = AConf g -> exists sp, o_sp o = Some sp /\ sp_verify sp g dom = true).
Definition asset_total (b : N) (l : list secrets) : Z :=
  isum (map (fun s => if N.eqb b (s_asset s) then s_value s else 0) l).
Definition u64 (v : Z) : Prop := 0 <= v < 2 ^ 64.

Lemma asset_total_bound b l : Forall (fun s => u64 (s_value s)) l -> 0 <= asset_total b l <= Z.of_nat (length l) * (2 ^ 64 - 1).
Proof.
  unfold asset_total, u64. induction 1 as [|s l U F IH]; cbn [map isum fold_right length]. - lia.
  - fold isum in *. unfold isum in IH. destruct (N.eqb b (s_asset s)); lia.
Qed.
Lemma zsum_H_total b l : zsum (map (fun s => coeff (scommit s) (kH b)) l) = (asset_total b l) mod qn.
Proof.
  unfold asset_total. rewrite zsum_isum.
  enough (E : eqn (isum (map (fun s => coeff (scommit s) (kH b)) l))
                  (isum (map (fun s => if N.eqb b (s_asset s) then s_value s else 0) l))) by exact E.
  induction l as [|s l IH]; cbn [map isum fold_right]. - reflexivity.
  - fold (isum (map (fun s => coeff (scommit s) (kH b)) l)).
    fold (isum (map (fun s => if N.eqb b (s_asset s) then s_value s else 0) l)).
    rewrite IH, coeff_scommit_H. destruct (N.eqb b (s_asset s)); [rewrite mod_eqn|]; reflexivity.
Qed.
Lemma gH_asset_gen_eq a0 a abf : geq (gH a0) (asset_gen a abf) -> a0 = a.
Proof.
  intro G. pose proof (G (kH a0)) as Ha. rewrite coeff_H, N.eqb_refl, coeff_asset_gen_H in Ha.
  destruct (N.eqb_spec a0 a); [assumption|discriminate].
Qed.

(* one accepted output has an opening *)
Lemma output_opening dom k o c : Forall opened_gen dom -> verify_output dom k o = OVal c ->
  (forall v, o_value o = VExp v -> u64 v) ->
  exists s, out_opened o c s /\ u64 (s_value s).
Proof.
  intros D V U. destruct (verify_output_inv _ _ _ _ V) as (GV & RP & SP).
  pose proof GV as GV0. unfold get_value_commit in GV. destruct (o_value o) as [|v|comm] eqn:OV; try discriminate.
  - destruct (v =? 0); [destruct (is_provably_unspendable (o_script o)); discriminate|].
    destruct (get_asset_gen o) as [g| |] eqn:GA; cbn [obind] in GV; try discriminate.
    destruct (out_gen_opened _ _ _ _ D V g GA) as (a & abf & G).
    unfold pedersen_unblinded in GV. destruct (geqb (commit v g 0) gzero); [discriminate|]. injection GV as <-.
    exists (mkSec a abf v 0). split; [|cbn; now apply U]. split; [exists g; split; [exact GA|exact G]|].
    split; [exact GV0|]. split; [unfold scommit, sgen; cbn; now rewrite G|]. split; [intros v' E; cbn; congruence|].
    intros a0 A0. unfold get_asset_gen in GA. rewrite A0 in GA. injection GA as <-. cbn. symmetry. now apply (gH_asset_gen_eq a0 a abf).
  - injection GV as <-. destruct (RP comm eq_refl) as (gen & rp & GA & _ & RV).
    destruct (rp_verify_sound _ _ _ _ RV) as (C & R & _).
    destruct (out_gen_opened _ _ _ _ D V gen GA) as (a & abf & G).
    exists (mkSec a abf (rp_value rp) (rp_vbf rp)). split; [|exact R]. split; [exists gen; split; [exact GA|exact G]|].
    split; [exact GV0|]. split; [unfold scommit, sgen; cbn; now rewrite C, G|]. split; [intros v' E; congruence|].
    intros a0 A0. unfold get_asset_gen in GA. rewrite A0 in GA. injection GA as <-. cbn. symmetry. now apply (gH_asset_gen_eq a0 a abf).
Qed.
(* a skipped output (explicit zero amount on a provably unspendable script) is opened by the zero secrets *)
Definition out_opened_step (o : txout) (oc : option gel) (s : secrets) : Prop :=
  match oc with Some c => out_opened o c s | None => skipped o = true /\ s = mkSec 0 0 0 0 end.
Lemma scommit_zero : geq gzero (scommit (mkSec 0 0 0 0)).
Proof. intro k. unfold scommit. rewrite coeff_commit, coeff_zero. cbn [s_value s_vbf]. unfold zadd, zmul. destruct (N.eqb k kG); reflexivity. Qed.
Lemma outputs_opening dom : Forall opened_gen dom -> forall outs k cs, verify_outputs dom outs k = OVal cs ->
  Forall (fun o => forall v, o_value o = VExp v -> u64 v) outs ->
  exists os, Forall2 (fun oc s => out_opened_step (fst oc) (snd oc) s) (combine outs cs) os /\ length os = length outs
             /\ Forall (fun s => u64 (s_value s)) os /\ Forall2 geq (map oc2g cs) (map scommit os)
             /\ Forall (fun o => skipped o = false -> proofs_for dom o) outs.
Proof.
  intros D. induction outs as [|o outs IH]; intros k cs V U; cbn [verify_outputs] in V.
  - injection V as <-. exists []. repeat split; constructor.
  - unfold verify_output_step in V. destruct (skipped o) eqn:SK.
    + cbn [obind] in V. destruct (verify_outputs dom outs (S k)) as [cs'| |] eqn:VR; cbn [obind] in V; try discriminate. injection V as <-.
      inversion U as [|? ? Uo Ur]; subst. destruct (IH _ _ VR Ur) as (os & F & L & FU & FC & PF).
      exists (mkSec 0 0 0 0 :: os). cbn [combine map length oc2g]. split; [constructor; [split; [exact SK|reflexivity]|assumption]|]. split; [congruence|].
      split; [constructor; [cbn; unfold u64; lia|assumption]|]. split; [constructor; [apply scommit_zero|assumption]|].
      constructor; [congruence|assumption].
    + destruct (verify_output dom k o) as [c| |] eqn:VO; cbn [obind] in V; try discriminate.
      destruct (verify_outputs dom outs (S k)) as [cs'| |] eqn:VR; cbn [obind] in V; try discriminate. injection V as <-.
      inversion U as [|? ? Uo Ur]; subst.
      destruct (output_opening _ _ _ _ D VO Uo) as (s & O & Us). destruct (IH _ _ VR Ur) as (os & F & L & FU & FC & PF).
      exists (s :: os). cbn [combine map length oc2g]. split; [constructor; assumption|]. split; [congruence|]. split; [constructor; assumption|].
      split; [constructor; [apply O|assumption]|]. constructor; [|assumption]. intros _.
      destruct (verify_output_inv _ _ _ _ VO) as (_ & RP & SP). split; assumption.
Qed.

Theorem verify_sound T spent ss :
  verify_tx_amt_proofs T spent = OVal tt -> opens (t_in T) spent ss ->
  Forall (fun s => u64 (s_value s)) ss -> Forall (fun o => forall v, o_value o = VExp v -> u64 v) (t_out T) ->
  Z.of_nat (length ss) * 2 ^ 64 < qn -> Z.of_nat (length (t_out T)) * 2 ^ 64 < qn ->
  exists dom coms ocoms os,
    verify_inputs (t_in T) spent 0 = OVal (dom, coms) /\ verify_outputs dom (t_out T) 0 = OVal ocoms
    /\ Forall2 (fun oc s => out_opened_step (fst oc) (snd oc) s) (combine (t_out T) ocoms) os /\ length os = length (t_out T)
    /\ Forall (fun s => u64 (s_value s)) os
    /\ (forall b, asset_total b ss = asset_total b os)                 (* integer balance per asset *)
    /\ Forall (fun o => skipped o = false -> proofs_for dom o) (t_out T).
Proof.
  intros V OP US UO BS BO. apply verify_ok_inv in V as (L & dom & coms & ocoms & VI & VO & B).
  destruct (verify_inputs_ok _ _ _ OP 0%nat) as (dom' & coms' & VI' & D & C). rewrite VI in VI'. injection VI' as <- <-.
  destruct (outputs_opening dom (dom_opened _ _ D) _ _ _ VO UO) as (os & F & LO & FU & FC & PF).
  exists dom, coms, ocoms, os. repeat split; try assumption.
  intro b. pose proof (B (kH b)) as Hb. rewrite (coeff_gsum_geq coms ss _ C), (coeff_gsum_geq (map oc2g ocoms) os _ FC), !zsum_H_total in Hb.
  pose proof (asset_total_bound b ss US). pose proof (asset_total_bound b os FU). rewrite LO in *.
  rewrite !Z.mod_small in Hb by lia. exact Hb.
Qed.

(* ================================================================== all-explicit transactions *)
Definition explicit_spent (u : txout) : Prop := exists a v, o_asset u = AExp a /\ o_value u = VExp v /\ 0 < v < 2 ^ 64.
Definition explicit_amount (v : cvalue) : Prop := v = VNull \/ exists x, v = VExp x /\ 0 < x < 2 ^ 64.
Definition explicit_iss (i : txin) : Prop := explicit_amount (is_amount (in_iss i)) /\ explicit_amount (is_keys (in_iss i)).
Definition explicit_out (o : txout) : Prop := exists a v, o_asset o = AExp a /\ o_value o = VExp v /\ 0 <= v < 2 ^ 64.
Definition all_explicit (T : tx) (spent : list txout) : Prop :=
  Forall explicit_spent spent /\ Forall explicit_iss (t_in T) /\ Forall explicit_out (t_out T).
(* the explicit amounts on the input side, per input: the spent output, then its issuance pseudo-inputs *)
Definition explicit_secret (u : txout) : secrets :=
  match o_asset u, o_value u with AExp a, VExp v => mkSec a 0 v 0 | _, _ => mkSec 0 0 0 0 end.
Fixpoint input_secrets (ins : list txin) (spent : list txout) : list secrets :=
  match ins, spent with
  | i :: ins', u :: spent' => explicit_secret u :: iss_secrets i ++ input_secrets ins' spent'
  | _, _ => []
  end.
Definition explicit_out_total (b : N) (outs : list txout) : Z := asset_total b (map explicit_secret outs).
(* the property's rule: an explicit zero amount is admissible only on a provably unspendable script *)
Definition zero_value_rule (T : tx) : Prop :=
  Forall (fun o => o_value o = VExp 0 -> is_provably_unspendable (o_script o) = true) (t_out T).

Lemma qn_u64 v : 0 < v < 2 ^ 64 -> 0 < v < qn.
Proof. pose proof qn_big. intros [A B]. split; [assumption|]. apply Z.lt_trans with (2 ^ 255); [|assumption]. eapply Z.lt_trans; [exact B|reflexivity]. Qed.
Lemma explicit_amount_ok v : explicit_amount v -> amount_ok v.
Proof. intros [->|(x & -> & X)]; [now left|right]. exists x. split; [reflexivity|now apply qn_u64]. Qed.
Lemma explicit_opens : forall ins spent, length spent = length ins -> Forall explicit_spent spent -> Forall explicit_iss ins ->
  opens ins spent (input_secrets ins spent).
Proof.
  induction ins as [|i ins IH]; intros [|u spent] L FS FI; cbn in L; try discriminate; cbn [input_secrets]. - constructor.
  - inversion FS as [|? ? (a & v & A & V & R) FS']; subst. inversion FI as [|? ? [IA IK] FI']; subst.
    unfold explicit_secret. rewrite A, V. constructor.
    + left. split; [exact A|reflexivity]. + left. cbn. repeat split; try assumption; try reflexivity; now apply qn_u64.
    + split; now apply explicit_amount_ok. + apply IH; [lia|assumption|assumption].
Qed.
Lemma input_secrets_u64 : forall ins spent, Forall explicit_spent spent -> Forall explicit_iss ins ->
  Forall (fun s => u64 (s_value s) /\ s_abf s = 0 /\ s_vbf s = 0) (input_secrets ins spent).
Proof.
  induction ins as [|i ins IH]; intros [|u spent] FS FI; cbn [input_secrets]; try constructor.
  - inversion FS as [|? ? (a & v & A & V & R) FS']; subst. unfold explicit_secret. rewrite A, V. cbn. unfold u64. repeat split; lia.
  - inversion FS as [|? ? _ FS']; subst. inversion FI as [|? ? [IA IK] FI']; subst. apply Forall_app. split; [|now apply IH].
    unfold iss_secrets. destruct (has_issuance i); [|constructor]. apply Forall_app. split.
    + destruct IA as [->|(x & -> & X)]; repeat constructor; cbn; unfold u64; lia.
    + destruct IK as [->|(x & -> & X)]; repeat constructor; cbn; unfold u64; lia.
Qed.
(* the output loop on explicit outputs obeying the zero-value rule: zero amounts (on provably unspendable scripts) are skipped *)
Lemma scommit_zero_a a : geq gzero (scommit (mkSec a 0 0 0)).
Proof. intro k. unfold scommit. rewrite coeff_commit, coeff_zero. cbn [s_value s_vbf]. unfold zadd, zmul. destruct (N.eqb k kG); reflexivity. Qed.
Lemma verify_outputs_explicit dom : forall outs k, Forall explicit_out outs ->
  Forall (fun o => o_value o = VExp 0 -> is_provably_unspendable (o_script o) = true) outs ->
  exists cs, verify_outputs dom outs k = OVal cs /\ Forall2 geq (map oc2g cs) (map scommit (map explicit_secret outs)).
Proof.
  induction outs as [|o outs IH]; intros k FE FN; cbn [verify_outputs map]. - exists []. split; constructor.
  - inversion FE as [|? ? (a & v & A & V & R) FE']; subst. inversion FN as [|? ? NZ FN']; subst.
    destruct (IH (S k) FE' FN') as (cs & -> & C). unfold verify_output_step, explicit_secret. rewrite A, V.
    destruct (Z.eq_dec v 0) as [->|NV].
    + assert (SK : skipped o = true) by (apply skipped_spec; split; [exact V|now apply NZ]). rewrite SK. cbn [obind].
      eexists. split; [reflexivity|]. cbn [map oc2g]. constructor; [apply scommit_zero_a|exact C].
    + assert (SK : skipped o = false). { destruct (skipped o) eqn:E; [|reflexivity]. apply skipped_spec in E as [E _]. congruence. } rewrite SK.
      assert (VP : 0 < v < qn) by (apply qn_u64; lia).
      unfold verify_output, get_value_commit, get_asset_gen. rewrite V, A.
      destruct (Z.eqb_spec v 0) as [Z0|_]; [lia|]. cbn [obind map_err]. rewrite pedersen_unblinded_H by exact VP. cbn [obind].
      eexists. split; [reflexivity|]. cbn [map oc2g]. constructor; [apply scommit_iss|exact C].
Qed.
Lemma explicit_G l : Forall (fun s => s_abf s = 0 /\ s_vbf s = 0) l -> zsum (map (fun s => coeff (scommit s) kG) l) = 0.
Proof.
  induction 1 as [|s l [A B] F IH]; cbn [map zsum fold_right]. - reflexivity.
  - fold (zsum (map (fun s => coeff (scommit s) kG) l)). rewrite IH, coeff_scommit_G. unfold svb, vb. rewrite A, B.
    unfold zadd, zmul. rewrite Z.mul_0_r. reflexivity.
Qed.
Lemma out_secrets_props outs : Forall explicit_out outs ->
  Forall (fun s => u64 (s_value s) /\ s_abf s = 0 /\ s_vbf s = 0) (map explicit_secret outs).
Proof.
  induction 1 as [|o outs (a & v & A & V & R) F IH]; cbn [map]; constructor; [|assumption].
  unfold explicit_secret. rewrite A, V. cbn. unfold u64. repeat split; lia.
Qed.
Lemma Forall_and_l {A} (P Q : A -> Prop) l : Forall (fun x => P x /\ Q x) l -> Forall P l.
Proof. induction 1 as [|x l [H _] F IH]; constructor; assumption. Qed.
Lemma Forall_and_r {A} (P Q : A -> Prop) l : Forall (fun x => P x /\ Q x) l -> Forall Q l.
Proof. induction 1 as [|x l [_ H] F IH]; constructor; assumption. Qed.

(* an all-explicit transaction is accepted exactly when the spent list has the right length, zero amounts occur only on
   provably unspendable scripts, and every asset balances as integers — the property's own characterisation.
   A zero amount on a SPENDABLE script is still rejected: get_value_commit answers NonUnspendableZeroValue for it, which the
   output loop reports as SpentTxOutError(i, NonUnspendableZeroValue); only ZeroValueCommitment is skipped. *)
Theorem explicit_iff T spent :
  all_explicit T spent ->
  Z.of_nat (length (input_secrets (t_in T) spent)) * 2 ^ 64 < qn -> Z.of_nat (length (t_out T)) * 2 ^ 64 < qn ->
  (verify_tx_amt_proofs T spent = OVal tt <->
   length spent = length (t_in T) /\ zero_value_rule T
   /\ forall b, asset_total b (input_secrets (t_in T) spent) = explicit_out_total b (t_out T)).
Proof.
  intros (FS & FI & FO) BS BO. split.
  - intro V. pose proof V as V0. apply verify_ok_inv in V as (L & dom & coms & ocoms & VI & VO & B).
    assert (NZ : zero_value_rule T).
    { apply Forall_forall. intros o I Z0. apply In_nth_error in I as (j & NE).
      destruct (verify_outputs_nth _ _ _ _ VO) as [_ N]. destruct (N j o NE) as (c & Vo & _). unfold verify_output_step in Vo.
      destruct (skipped o) eqn:SK; [apply skipped_spec in SK; tauto|].
      destruct (verify_output dom (0 + j) o) as [c0| |] eqn:Vo'; cbn [obind] in Vo; try discriminate.
      destruct (verify_output_inv _ _ _ _ Vo') as (GV & _). unfold get_value_commit in GV. rewrite Z0 in GV. cbn in GV.
      destruct (is_provably_unspendable (o_script o)); [reflexivity|discriminate]. }
    split; [exact L|]. split; [exact NZ|]. intro b.
    pose proof (explicit_opens _ _ L FS FI) as OP.
    destruct (verify_inputs_ok _ _ _ OP 0%nat) as (dom' & coms' & VI' & D & C). rewrite VI in VI'. injection VI' as <- <-.
    destruct (verify_outputs_explicit dom _ 0%nat FO NZ) as (cs & VO' & CS). rewrite VO in VO'. injection VO' as <-.
    pose proof (B (kH b)) as Hb. rewrite (coeff_gsum_geq coms _ _ C), (coeff_gsum_geq (map oc2g ocoms) _ _ CS), !zsum_H_total in Hb.
    pose proof (asset_total_bound b _ (Forall_and_l _ _ _ (input_secrets_u64 _ _ FS FI))).
    pose proof (asset_total_bound b _ (Forall_and_l _ _ _ (out_secrets_props _ FO))). rewrite map_length in *.
    unfold explicit_out_total. rewrite !Z.mod_small in Hb by lia. exact Hb.
  - intros (L & NZ & BAL). apply verify_ok_inv. split; [exact L|].
    pose proof (explicit_opens _ _ L FS FI) as OP.
    destruct (verify_inputs_ok _ _ _ OP 0%nat) as (dom & coms & VI & D & C).
    destruct (verify_outputs_explicit dom _ 0%nat FO NZ) as (cs & VO & CS).
    exists dom, coms, cs. split; [exact VI|]. split; [exact VO|]. intro k.
    rewrite (coeff_gsum_geq coms _ _ C), (coeff_gsum_geq (map oc2g cs) _ _ CS).
    destruct (bkey_cases k) as [->|(b & ->)].
    + rewrite !explicit_G; [reflexivity| |].
      * apply (Forall_and_r _ _ _ (out_secrets_props _ FO)).
      * apply (Forall_and_r _ _ _ (input_secrets_u64 _ _ FS FI)).
    + rewrite !zsum_H_total. f_equal. apply BAL.
Qed.
(* the two ways an explicit zero amount is treated *)
Lemma zero_value_unspendable_skipped o : o_value o = VExp 0 -> is_provably_unspendable (o_script o) = true -> skipped o = true.
Proof. intros V U. now apply skipped_spec. Qed.
Lemma zero_value_spendable_rejected dom k o : o_value o = VExp 0 -> is_provably_unspendable (o_script o) = false ->
  verify_output_step dom k o = OFail (SpentTxOutError k NonUnspendableZeroValue).
Proof.
  intros V U. unfold verify_output_step. assert (SK : skipped o = false).
  { destruct (skipped o) eqn:E; [|reflexivity]. apply skipped_spec in E as [_ E]. congruence. }
  rewrite SK. unfold verify_output, get_value_commit. rewrite V. cbn. rewrite U. reflexivity.
Qed.
Lemma skipped_nonzero o v : o_value o = VExp v -> v <> 0 -> skipped o = false.
Proof. intros V NZ. destruct (skipped o) eqn:E; [|reflexivity]. apply skipped_spec in E as [E _]. congruence. Qed.
Lemma step_live dom k o c : skipped o = false -> verify_output dom k o = OVal c -> verify_output_step dom k o = OVal (Some c).
Proof. intros SK V. unfold verify_output_step. now rewrite SK, V. Qed.
Lemma step_inv dom k o oc : verify_output_step dom k o = OVal oc ->
  (skipped o = true /\ oc = None) \/ (skipped o = false /\ exists c, oc = Some c /\ verify_output dom k o = OVal c).
Proof.
  unfold verify_output_step. destruct (skipped o); [intros [= <-]; now left|].
  destruct (verify_output dom k o) as [c| |]; cbn [obind]; try discriminate. intros [= <-]. right. split; [reflexivity|]. now exists c.
Qed.
