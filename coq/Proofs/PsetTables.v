(* C07 — the generated tables satisfy the hypotheses of the generic theory (Proofs/PsetMaps.v); the instantiated theorems. *)
From Coq Require Import List Arith NArith ZArith Lia Bool ZifyN ZifyBool ZifyNat.
From Coq.Strings Require Import Byte.
From EV Require Import Base.Bytes Base.Codec Base.Base64 Gen.Tables Model.Tx Model.Taproot Model.PsetRaw Model.PsetMaps Model.PsetValues Model.PsetTables.
From EV Require Import Proofs.PsetRaw Proofs.PsetMaps Proofs.PsetValues.
Import ListNotations.
Open Scope N_scope.
Set Default Timeout 120.

(* ---- every field of a table that passes `route_ok` is reachable: the key `get_pairs` builds for it classifies back to it ---- *)
Section ROUTE.
Variable maxvec : N.
Hypothesis Hmax : maxvec + 1 < 2 ^ 64.
Hypothesis Hmin : 4 <= maxvec.
Variable T : table.
Hypothesis RT : route_ok T = true.
Lemma in_combine_seq' {A} (l : list A) : forall j d s, nth_error l j = Some d -> In ((s + j)%nat, d) (List.combine (seq s (length l)) l).
Proof. induction l as [|x l IH]; intros j d s H; [destruct j; discriminate|]. destruct j as [|j]; cbn in *.
  - inversion H; subst. left. f_equal. lia.
  - right. replace (s + S j)%nat with (S s + j)%nat by lia. now apply IH. Qed.
Lemma route_row i r : nth_error T i = Some r ->
  match r_addr r with
  | APlain t => find_idx (is_plain t) T = Some i /\ t <> xfc
  | APset s => find_idx (is_pset s) T = Some i
  | AProp => find_idx is_prop T = Some i
  | AUnk => find_idx is_unk T = Some i end.
Proof. intros H. unfold route_ok in RT. rewrite forallb_forall in RT. specialize (RT _ (in_combine_seq' T i r 0%nat H)). cbn [fst snd] in RT.
  destruct (r_addr r) as [t|s| |].
  - apply andb_true_iff in RT as [A B]. destruct (find_idx (is_plain t) T) as [j|]; [|discriminate]. apply Nat.eqb_eq in A. subst j. split; [reflexivity|].
    intros ->. rewrite byte_eqb_refl in B. discriminate.
  - destruct (find_idx (is_pset s) T) as [j|]; [|discriminate]. apply Nat.eqb_eq in RT. now subst.
  - destruct (find_idx is_prop T) as [j|]; [|discriminate]. apply Nat.eqb_eq in RT. now subst.
  - destruct (find_idx is_unk T) as [j|]; [|discriminate]. apply Nat.eqb_eq in RT. now subst. Qed.
Lemma no_plain_fc : find_idx (is_plain xfc) T = None.
Proof. destruct (find_idx (is_plain xfc) T) as [j|] eqn:F; [|reflexivity]. exfalso.
  destruct (find_idx_some _ _ _ F) as (r & R & P). pose proof (route_row _ _ R) as X. unfold is_plain in P.
  destruct (r_addr r) as [t| | |]; try discriminate. apply byte_eqb_true in P. subst t. now destruct X. Qed.
Theorem field_reachable i r k v : nth_error T i = Some r -> (exists t, r_addr r = APlain t) \/ (exists s, r_addr r = APset s) ->
  classify maxvec T (mk_key maxvec T (i, k, v)) = POk (i, k).
Proof. intros R A. pose proof (route_row _ _ R) as X. unfold mk_key. cbn [slot ekey fst snd]. rewrite R. destruct A as [[t A]|[s A]]; rewrite A in *.
  - destruct X as [X _]. unfold classify. now rewrite X.
  - unfold classify. rewrite no_plain_fc, byte_eqb_refl.
    rewrite (prop_dec_enc maxvec Hmax pset_prefix s k) by (unfold fitsb, pset_prefix; cbn [length]; lia). now rewrite bytes_eqb_refl, X. Qed.
End ROUTE.

(* ---- a foreign proprietary key (prefix other than "pset") set through BTreeMap::insert keeps a map well-formed ---- *)
Section PROPSET.
Variable maxvec : N.
Hypothesis Hmax : maxvec + 1 < 2 ^ 64.
Hypothesis Hmin : 4 <= maxvec.
Variable T : table.
Variable post : pmap -> option perr.
Hypothesis RT : route_ok T = true.
Hypothesis RO : rows_ok T.
Variable ip : nat.
Variable rp : row.
Hypothesis Hrow : nth_error T ip = Some rp.
Hypothesis Haddr : r_addr rp = AProp.
Hypothesis Hv : forall k v, r_vcanon rp k v = POk v.
Lemma foreign_entry k v pfx s d : fitsb maxvec k = true -> fitsb maxvec v = true ->
  prop_dec maxvec k = Some (pfx, s, d) -> bytes_eqb pfx pset_prefix = false -> wf_entry maxvec T (ip, k, v).
Proof. intros Fk Fv PD NP. destruct (ro_whole _ (RO _ _ Hrow) (or_introl Haddr)) as [KM KC].
  assert (Kn : k <> []). { intros ->. unfold prop_dec in PD. cbn in PD. discriminate. }
  assert (MK : mk_key maxvec T (ip, k, v) = (xfc, k)). { unfold mk_key. cbn [slot ekey fst snd]. now rewrite Hrow, Haddr. }
  split.
  - exists rp. cbn [slot ekey evalue fst snd]. split; [exact Hrow|]. split; [unfold kvalid; rewrite KM; split; [exact Kn|now apply KC]|].
    rewrite MK. split; [|split; assumption].
    assert (NPF : find_idx (is_plain xfc) T = None) by (eapply no_plain_fc; eassumption).
    assert (X : find_idx is_prop T = Some ip). { assert (Y := Hrow). eapply route_row in Y; try eassumption. now rewrite Haddr in Y. }
    unfold classify. now rewrite NPF, byte_eqb_refl, PD, NP, X.
  - exists rp. cbn [slot ekey evalue fst snd]. split; [exact Hrow|apply Hv]. Qed.
Hypothesis Hpost : forall m k v, post (set_keyed T m ip k v) = post m.
Theorem foreign_set_wf m k v pfx s d : wf_map maxvec T post m -> fitsb maxvec k = true -> fitsb maxvec v = true ->
  prop_dec maxvec k = Some (pfx, s, d) -> bytes_eqb pfx pset_prefix = false -> wf_map maxvec T post (set_keyed T m ip k v).
Proof. intros [W P] Fk Fv PD NP. split; [|now rewrite Hpost]. apply set_keyed_wf; auto. eapply foreign_entry; eauto. Qed.
End PROPSET.

Lemma Forall_upd_nth {A} (P : A -> Prop) f : (forall x, P x -> P (f x)) -> forall n l, Forall P l -> Forall P (upd_nth n f l).
Proof. intros H n. induction n as [|n IH]; intros [|x l] F; cbn; auto; inversion F; subst; constructor; auto. Qed.
Lemma upd_nth_length {A} (f : A -> A) : forall n l, length (upd_nth n f l) = length l.
Proof. induction n as [|n IH]; intros [|x l]; cbn; auto. Qed.
Lemma nth_upd_nth {A} (f : A -> A) : forall n l x, nth_error l n = Some x -> nth_error (upd_nth n f l) n = Some (f x).
Proof. induction n as [|n IH]; intros [|y l] x H; cbn in *; try discriminate; [now inversion H|now apply IH]. Qed.

Definition foreign (maxvec : N) (k : bytes) : Prop := exists pfx s d, prop_dec maxvec k = Some (pfx, s, d) /\ bytes_eqb pfx pset_prefix = false.
Section ELIPKEYS.
Variable maxvec : N.
Hypothesis Hmax : maxvec + 1 < 2 ^ 64.
Hypothesis Hmin16 : 16 <= maxvec.
(* the two ELIP key families are foreign *)
Lemma hww_foreign sub asset : foreign maxvec (hww_key maxvec sub asset).
Proof. exists C07_PSET_HWW_PREFIX, (n2b sub), asset. split; [|reflexivity]. apply prop_dec_enc; [exact Hmax|]. unfold fitsb. cbn [length C07_PSET_HWW_PREFIX]. lia. Qed.
Lemma liquidex_foreign sub : foreign maxvec (liquidex_key maxvec sub).
Proof. exists C07_PSET_LIQUIDEX_PREFIX, (n2b sub), []. split; [|reflexivity]. apply prop_dec_enc; [exact Hmax|]. unfold fitsb. cbn [length C07_PSET_LIQUIDEX_PREFIX]. lia. Qed.
Lemma liquidex_fits sub : fitsb maxvec (liquidex_key maxvec sub) = true.
Proof. unfold fitsb, liquidex_key, PsetRaw.prop_enc. rewrite app_length. cbn [length Codec.enc Codec.c_varbytes]. rewrite app_length. cbn [length C07_PSET_LIQUIDEX_PREFIX Codec.vi_enc]. cbn. lia. Qed.

End ELIPKEYS.

Section TABLES.
Variable maxvec : N.
Hypothesis Hmax : maxvec + 1 < 2 ^ 64.
Hypothesis Hmin : 4 <= maxvec.
Variables cap_txin cap_txout cap_vecu8 cap_h32 : N.
Variables pt_ok pk_ok xonly_ok : bytes -> bool.
Variables Hrip Hsha Hh160 Hh256 : bytes -> bytes.
Variables Hleaf Hbranch : bytes -> bytes.

Notation row_of_desc := (row_of_desc maxvec cap_txin cap_txout cap_vecu8 cap_h32 pt_ok pk_ok xonly_ok Hrip Hsha Hh160 Hh256 Hleaf Hbranch).
Notation TG := (Tg maxvec cap_txin cap_txout cap_vecu8 cap_h32 pt_ok pk_ok xonly_ok Hrip Hsha Hh160 Hh256 Hleaf Hbranch).
Notation TI := (Ti maxvec cap_txin cap_txout cap_vecu8 cap_h32 pt_ok pk_ok xonly_ok Hrip Hsha Hh160 Hh256 Hleaf Hbranch).
Notation TO := (To maxvec cap_txin cap_txout cap_vecu8 cap_h32 pt_ok pk_ok xonly_ok Hrip Hsha Hh160 Hh256 Hleaf Hbranch).
Notation POSTG := (postg maxvec cap_txin cap_txout cap_vecu8 cap_h32 pt_ok pk_ok xonly_ok Hrip Hsha Hh160 Hh256 Hleaf Hbranch).
Notation POSTI := (posti maxvec cap_txin cap_txout cap_vecu8 cap_h32 pt_ok pk_ok xonly_ok Hrip Hsha Hh160 Hh256 Hleaf Hbranch).
Notation POSTO := (posto maxvec cap_txin cap_txout cap_vecu8 cap_h32 pt_ok pk_ok xonly_ok Hrip Hsha Hh160 Hh256 Hleaf Hbranch).
Notation SER := (pset_serialize maxvec cap_txin cap_txout cap_vecu8 cap_h32 pt_ok pk_ok xonly_ok Hrip Hsha Hh160 Hh256 Hleaf Hbranch).
Notation DESER := (pset_deserialize maxvec cap_txin cap_txout cap_vecu8 cap_h32 pt_ok pk_ok xonly_ok Hrip Hsha Hh160 Hh256 Hleaf Hbranch).

(* every row built from a descriptor satisfies the row laws *)
Lemma row_of_desc_ok d : row_ok (row_of_desc d).
Proof. unfold PsetTables.row_of_desc. split; cbn [r_kcanon r_vcanon r_disc r_addr r_kind].
  - intros kd k H. destruct (mode_of (d_mode d));
      try (eapply kcanon_law; eauto; fail);
      (unfold whole_key in *; destruct kd; [discriminate|]; inversion H; subst; repeat split; try discriminate; lia).
  - intros k v c H. destruct (mode_of (d_mode d)); try (eapply vcanon_size; eauto; fail); inversion H; subst; lia.
  - intros proj D a b _ _ P. destruct (mode_of (d_mode d)); inversion D; subst proj;
      try (eapply key_proj_inj; eauto; fail); try (eapply proj_prop_inj; eauto; fail). unfold proj_bytes in P. now inversion P.
  - intros A. destruct (mode_of (d_mode d)); destruct A as [A|A]; try discriminate A; (split; [reflexivity|]); intros kd Hk; unfold whole_key; (destruct kd; [now elim Hk|reflexivity]). Qed.

Lemma rows_ok_map ds : rows_ok (map row_of_desc ds).
Proof. intros i r H. apply nth_error_In in H. apply in_map_iff in H as (d & <- & I). apply row_of_desc_ok. Qed.
(* every value canoniser is idempotent (TapTree included since fix aee9a45: Deserialize then Serialize is the identity on it) *)
Lemma v_idem_desc d : v_idem (row_of_desc d).
Proof. intros k v c. unfold PsetTables.row_of_desc. cbn [r_vcanon]. destruct (mode_of (d_mode d)); try (apply vcanon_idem); intros H; inversion H; subst; reflexivity. Qed.

Lemma ROg : rows_ok TG. Proof. unfold PsetTables.Tg. apply (rows_ok_map C07_GLOBAL_FIELDS). Qed.
Lemma ROi : rows_ok TI. Proof. unfold PsetTables.Ti. apply (rows_ok_map C07_INPUT_FIELDS). Qed.
Lemma ROo : rows_ok TO. Proof. unfold PsetTables.To. apply (rows_ok_map C07_OUTPUT_FIELDS). Qed.

Definition Gall (_ : nat) : Prop := True.
Lemma GI_map ds j r : nth_error (map row_of_desc ds) j = Some r -> Gall j -> v_idem r.
Proof. intros H _. apply nth_error_In in H. apply in_map_iff in H as (d & <- & I). apply v_idem_desc. Qed.
Lemma GIg j r : nth_error TG j = Some r -> Gall j -> v_idem r. Proof. unfold PsetTables.Tg. apply GI_map. Qed.
Lemma GIi j r : nth_error TI j = Some r -> Gall j -> v_idem r. Proof. unfold PsetTables.Ti. apply GI_map. Qed.
Lemma GIo j r : nth_error TO j = Some r -> Gall j -> v_idem r. Proof. unfold PsetTables.To. apply GI_map. Qed.

(* ---------------------------------------------------------------- the statements of the property *)
Definition wf_pset_c : pset -> Prop := wf_pset maxvec TG TI TO POSTG POSTI POSTO n_inputs n_outputs C07_PSET_CAP.
Lemma all_fixed p : pset_fixed TG TI TO Gall Gall Gall p.
Proof. split; [|split]; repeat (apply Forall_forall; intros); left; exact I. Qed.

Theorem rt_c p : wf_pset_c p -> DESER (SER p) = POk p.
Proof. apply pset_rt; assumption. Qed.
Theorem deserialize_wf_c bs p : DESER bs = POk p -> wf_pset_c p.
Proof. intros H. eapply (deserialize_wf maxvec Hmax Hmin TG TI TO POSTG POSTI POSTO n_inputs n_outputs C07_PSET_CAP ROg ROi ROo Gall Gall Gall GIg GIi GIo); eauto. apply all_fixed. Qed.
Theorem fixpoint_c bs p : DESER bs = POk p -> DESER (SER p) = POk p.
Proof. intros H. apply rt_c. eapply deserialize_wf_c; eauto. Qed.
Theorem counts_c bs p : DESER bs = POk p -> sanity_check n_inputs n_outputs p = true.
Proof. apply (deserialize_counts maxvec Hmax Hmin TG TI TO POSTG POSTI POSTO n_inputs n_outputs C07_PSET_CAP ROi ROo). Qed.

(* inconsistent counts, both directions: a byte string made of the magic, a global map and k further well-framed maps is accepted only
   if k = declared inputs + declared outputs; hence any mismatch between the declared counts and the maps present is an error *)
Theorem framed_count_c (gps : list rpair) (ms : list (list rpair)) p : Forall (fits maxvec) gps -> Forall (Forall (fits maxvec)) ms ->
  DESER (magic ++ enc_rawmap maxvec gps ++ concat (map (enc_rawmap maxvec) ms)) = POk p ->
  N.of_nat (length ms) = n_inputs (p_global p) + n_outputs (p_global p).
Proof. intros Fg Fm H. assert (L : length ms = (length (p_inputs p) + length (p_outputs p))%nat) by (unfold PsetTables.pset_deserialize in H; eapply (framed_count maxvec Hmax Hmin TG TI TO POSTG POSTI POSTO n_inputs n_outputs C07_PSET_CAP Gall Gall Gall GIg GIi GIo); eassumption).
  pose proof (counts_c _ _ H) as S. unfold sanity_check in S. apply andb_true_iff in S as [S1 S2]. apply N.eqb_eq in S1, S2. lia. Qed.
Theorem count_mismatch_rejected (gps : list rpair) (ms : list (list rpair)) g r : Forall (fits maxvec) gps -> Forall (Forall (fits maxvec)) ms ->
  dec_map maxvec TG POSTG (enc_rawmap maxvec gps ++ concat (map (enc_rawmap maxvec) ms)) = POk (g, r) ->
  N.of_nat (length ms) <> n_inputs g + n_outputs g ->
  exists e, DESER (magic ++ enc_rawmap maxvec gps ++ concat (map (enc_rawmap maxvec) ms)) = PErr e.
Proof. intros Fg Fm Dg NE. destruct (DESER _) as [p|e] eqn:D; [|eauto]. exfalso. apply NE.
  assert (X : exists r', dec_map maxvec TG POSTG (enc_rawmap maxvec gps ++ concat (map (enc_rawmap maxvec) ms)) = POk (p_global p, r')) by (unfold PsetTables.pset_deserialize in D; eapply deserialize_global; eassumption).
  destruct X as [r' Dg']. rewrite Dg in Dg'. inversion Dg'; subst.
  now apply (framed_count_c gps ms p). Qed.

(* mandatory fields: what dec_map accepts has every mandatory row *)
Lemma missing_g bs m rest : dec_map maxvec TG POSTG bs = POk (m, rest) -> missing TG m = false /\ get_opt m (idx C07_GLOBAL_FIELDS (blit_of "ver"%lb)) = Some two_le.
Proof. unfold dec_map. destruct (dec_entries maxvec TG (S (length bs)) bs []) as [[m' r]|]; [|discriminate]. cbn [pbind fst].
  destruct (POSTG m') eqn:P; [discriminate|]. intros H; inversion H; subst. unfold PsetTables.postg in P.
  revert P. destruct (get_opt m _) as [v|]; [|discriminate]. destruct (bytes_eqb_spec v two_le) as [->|]; [|discriminate]. cbn [negb].
  destruct (missing TG m); [discriminate|]. auto. Qed.
Lemma missing_i bs m rest : dec_map maxvec TI POSTI bs = POk (m, rest) -> missing TI m = false.
Proof. unfold dec_map. destruct (dec_entries maxvec TI (S (length bs)) bs []) as [[m' r]|]; [|discriminate]. cbn [pbind fst].
  destruct (POSTI m') eqn:P; [discriminate|]. intros H; inversion H; subst. unfold PsetTables.posti in P. revert P. now destruct (missing TI m). Qed.
Lemma missing_o bs m rest : dec_map maxvec TO POSTO bs = POk (m, rest) -> missing TO m = false /\ POSTO m = None.
Proof. unfold dec_map. destruct (dec_entries maxvec TO (S (length bs)) bs []) as [[m' r]|]; [|discriminate]. cbn [pbind fst].
  destruct (POSTO m') eqn:P; [discriminate|]. intros H; inversion H; subst. split; [|exact P]. unfold PsetTables.posto in P. revert P. now destruct (missing TO m). Qed.

Lemma Forall2_refl {A} (R : A -> A -> Prop) : (forall x, R x x) -> forall l, Forall2 R l l.
Proof. intros H l. induction l; constructor; auto. Qed.
Lemma pset_equiv_refl p : pset_equiv maxvec Hleaf Hbranch p p.
Proof. assert (E : forall b e, entry_equiv maxvec Hleaf Hbranch b e e) by (intros; repeat split; auto).
  repeat split; repeat (apply Forall2_refl; intros); apply E. Qed.
(* the full conclusion of the fixpoint clause, for every accepted byte string *)
Theorem fixpoint_full_c bs p : DESER bs = POk p ->
  let c := SER p in exists p', DESER c = POk p' /\ pset_equiv maxvec Hleaf Hbranch p' p /\ SER p' = c.
Proof. intros H c. exists p. split; [now apply (fixpoint_c bs)|]. split; [apply pset_equiv_refl|reflexivity]. Qed.
(* no field of a table is assigned without a duplicate test (KOptLast): then duplicate rejection covers every key *)
Definition no_optlast (T : table) : bool := forallb (fun r => match r_kind r with KOptLast => false | _ => true end) T.
Lemma no_optlast_row T i r : no_optlast T = true -> nth_error T i = Some r -> r_kind r <> KOptLast.
Proof. unfold no_optlast. rewrite forallb_forall. intros F H E. specialize (F r (nth_error_In _ _ H)). now rewrite E in F. Qed.

(* ---- ELIP accessors on the three concrete tables ---- *)
Lemma RTg : route_ok TG = true. Proof. vm_compute. reflexivity. Qed.
Lemma RTi : route_ok TI = true. Proof. vm_compute. reflexivity. Qed.
Lemma RTo : route_ok TO = true. Proof. vm_compute. reflexivity. Qed.
Definition prow : row := row_of_desc ([x70; x72; x6f; x70; x72; x69; x65; x74; x61; x72; x79], 6, 252, 252, [], []).
Lemma prow_g : nth_error TG (prop_row C07_GLOBAL_FIELDS) = Some prow. Proof. unfold PsetTables.Tg, prow. apply map_nth_error. vm_compute. reflexivity. Qed.
Lemma prow_i : nth_error TI (prop_row C07_INPUT_FIELDS) = Some prow. Proof. unfold PsetTables.Ti, prow. apply map_nth_error. vm_compute. reflexivity. Qed.
Lemma prow_o : nth_error TO (prop_row C07_OUTPUT_FIELDS) = Some prow. Proof. unfold PsetTables.To, prow. apply map_nth_error. vm_compute. reflexivity. Qed.
Lemma prow_v k v : r_vcanon prow k v = POk v. Proof. reflexivity. Qed.
Lemma prow_mand r T i : nth_error T i = Some prow -> nth_error T i = Some r -> r_mand r = false.
Proof. intros H H'. rewrite H in H'. inversion H'; subst. reflexivity. Qed.
Ltac neq_idx := let E := fresh in vm_compute; intro E; discriminate E.
Lemma postg_set m k v : POSTG (set_keyed TG m (prop_row C07_GLOBAL_FIELDS) k v) = POSTG m.
Proof. unfold PsetTables.postg. rewrite (get_opt_set TG) by neq_idx. now rewrite (missing_set TG) by (intros r; apply (prow_mand r TG _ prow_g)). Qed.
Lemma posti_set m k v : POSTI (set_keyed TI m (prop_row C07_INPUT_FIELDS) k v) = POSTI m.
Proof. unfold PsetTables.posti. now rewrite (missing_set TI) by (intros r; apply (prow_mand r TI _ prow_i)). Qed.
Lemma posto_set m k v : POSTO (set_keyed TO m (prop_row C07_OUTPUT_FIELDS) k v) = POSTO m.
Proof. unfold PsetTables.posto, present. rewrite (missing_set TO) by (intros r; apply (prow_mand r TO _ prow_o)).
  now rewrite !(has_slot_set TO) by neq_idx. Qed.
Lemma counts_set g k v : n_inputs (set_keyed TG g (prop_row C07_GLOBAL_FIELDS) k v) = n_inputs g /\ n_outputs (set_keyed TG g (prop_row C07_GLOBAL_FIELDS) k v) = n_outputs g.
Proof. unfold n_inputs, n_outputs, count_of. split; now rewrite (get_opt_set TG) by neq_idx. Qed.

Theorem set_global_prop_wf p k v : wf_pset_c p -> fitsb maxvec k = true -> fitsb maxvec v = true -> foreign maxvec k ->
  wf_pset_c (set_global_prop maxvec cap_txin cap_txout cap_vecu8 cap_h32 pt_ok pk_ok xonly_ok Hrip Hsha Hh160 Hh256 Hleaf Hbranch p k v).
Proof. intros (Wg & Wi & Wo & Ni & No & Ci & Co) Fk Fv (pfx & s & d & PD & NP). unfold wf_pset_c, wf_pset, set_global_prop. cbn [p_global p_inputs p_outputs].
  destruct (counts_set (p_global p) k v) as [-> ->]. split; [|repeat split; auto].
  eapply (foreign_set_wf maxvec Hmax Hmin TG POSTG RTg ROg _ prow prow_g eq_refl prow_v postg_set); eauto. Qed.
Theorem set_input_prop_wf p n k v : wf_pset_c p -> fitsb maxvec k = true -> fitsb maxvec v = true -> foreign maxvec k ->
  wf_pset_c (set_input_prop maxvec cap_txin cap_txout cap_vecu8 cap_h32 pt_ok pk_ok xonly_ok Hrip Hsha Hh160 Hh256 Hleaf Hbranch p n k v).
Proof. intros (Wg & Wi & Wo & Ni & No & Ci & Co) Fk Fv (pfx & s & d & PD & NP). unfold wf_pset_c, wf_pset, set_input_prop. cbn [p_global p_inputs p_outputs].
  rewrite upd_nth_length. split; [exact Wg|]. split; [|repeat split; auto]. apply Forall_upd_nth; [|exact Wi]. intros m Wm.
  eapply (foreign_set_wf maxvec Hmax Hmin TI POSTI RTi ROi _ prow prow_i eq_refl prow_v posti_set); eauto. Qed.
Theorem set_output_prop_wf p n k v : wf_pset_c p -> fitsb maxvec k = true -> fitsb maxvec v = true -> foreign maxvec k ->
  wf_pset_c (set_output_prop maxvec cap_txin cap_txout cap_vecu8 cap_h32 pt_ok pk_ok xonly_ok Hrip Hsha Hh160 Hh256 Hleaf Hbranch p n k v).
Proof. intros (Wg & Wi & Wo & Ni & No & Ci & Co) Fk Fv (pfx & s & d & PD & NP). unfold wf_pset_c, wf_pset, set_output_prop. cbn [p_global p_inputs p_outputs].
  rewrite upd_nth_length. split; [exact Wg|]. split; [exact Wi|]. split; [|repeat split; auto]. apply Forall_upd_nth; [|exact Wo]. intros m Wm.
  eapply (foreign_set_wf maxvec Hmax Hmin TO POSTO RTo ROo _ prow prow_o eq_refl prow_v posto_set); eauto. Qed.
(* text form *)
Definition to_string (p : pset) : bytes := b64_enc (SER p).
Definition from_str (s : bytes) : pres pset := match b64_dec s with Some b => DESER b | None => PErr EInvalid end.
Theorem rt_text_c p : wf_pset_c p -> from_str (to_string p) = POk p.
Proof. intros W. unfold from_str, to_string. rewrite b64_roundtrip. now apply rt_c. Qed.
End TABLES.
