(* C07 — the generated tables satisfy the hypotheses of the generic theory (Proofs/PsetMaps.v); the instantiated theorems. *)
From Coq Require Import List Arith NArith ZArith Lia Bool ZifyN ZifyBool ZifyNat.
From Coq.Strings Require Import Byte.
From EV Require Import Base.Bytes Base.Codec Base.Base64 Gen.Tables Model.Tx Model.Taproot Model.PsetRaw Model.PsetMaps Model.PsetValues Model.PsetTables.
From EV Require Import Proofs.PsetRaw Proofs.PsetMaps Proofs.PsetValues.
Import ListNotations.
Open Scope N_scope.
Set Default Timeout 120.

(* ---- every field of a table that passes `route_ok` is reachable: the key `get_pairs` builds for it classifies back to it ---- *)
Section ROUTE.
Variable maxvec : N.
Hypothesis Hmax : maxvec + 1 < 2 ^ 64.
Hypothesis Hmin : 4 <= maxvec.
Variable T : table.
Hypothesis RT : route_ok T = true.
Lemma in_combine_seq' {A} (l : list A) : forall j d s, nth_error l j = Some d -> In ((s + j)%nat, d) (List.combine (seq s (length l)) l).
Proof. induction l as [|x l IH]; intros j d s H; [destruct j; discriminate|]. destruct j as [|j]; cbn in *.
  - inversion H; subst. left. f_equal. lia.
  - right. replace (s + S j)%nat with (S s + j)%nat by lia. now apply IH. Qed.
Lemma route_row i r : nth_error T i = Some r ->
  match r_addr r with
  | APlain t => find_idx (is_plain t) T = Some i /\ t <> xfc
  | APset s => find_idx (is_pset s) T = Some i
  | AProp => find_idx is_prop T = Some i
  | AUnk => find_idx is_unk T = Some i end.
Proof. intros H. unfold route_ok in RT. rewrite forallb_forall in RT. specialize (RT _ (in_combine_seq' T i r 0%nat H)). cbn [fst snd] in RT.
  destruct (r_addr r) as [t|s| |].
  - apply andb_true_iff in RT as [A B]. destruct (find_idx (is_plain t) T) as [j|]; [|discriminate]. apply Nat.eqb_eq in A. subst j. split; [reflexivity|].
    intros ->. rewrite byte_eqb_refl in B. discriminate.
  - destruct (find_idx (is_pset s) T) as [j|]; [|discriminate]. apply Nat.eqb_eq in RT. now subst.
  - destruct (find_idx is_prop T) as [j|]; [|discriminate]. apply Nat.eqb_eq in RT. now subst.
  - destruct (find_idx is_unk T) as [j|]; [|discriminate]. apply Nat.eqb_eq in RT. now subst. Qed.
Lemma no_plain_fc : find_idx (is_plain xfc) T = None.
Proof. destruct (find_idx (is_plain xfc) T) as [j|] eqn:F; [|reflexivity]. exfalso.
  destruct (find_idx_some _ _ _ F) as (r & R & P). pose proof (route_row _ _ R) as X. unfold is_plain in P.
  destruct (r_addr r) as [t| | |]; try discriminate. apply byte_eqb_true in P. subst t. now destruct X. Qed.
Theorem field_reachable i r k v : nth_error T i = Some r -> (exists t, r_addr r = APlain t) \/ (exists s, r_addr r = APset s) ->
  classify maxvec T (mk_key maxvec T (i, k, v)) = POk (i, k).
Proof. intros R A. pose proof (route_row _ _ R) as X. unfold mk_key. cbn [slot ekey fst snd]. rewrite R. destruct A as [[t A]|[s A]]; rewrite A in *.
  - destruct X as [X _]. unfold classify. now rewrite X.
  - unfold classify. rewrite no_plain_fc, byte_eqb_refl.
    rewrite (prop_dec_enc maxvec Hmax pset_prefix s k) by (unfold fitsb, pset_prefix; cbn [length]; lia). now rewrite bytes_eqb_refl, X. Qed.
End ROUTE.

Section TABLES.
Variable maxvec : N.
Hypothesis Hmax : maxvec + 1 < 2 ^ 64.
Hypothesis Hmin : 4 <= maxvec.
Variables cap_txin cap_txout cap_vecu8 cap_h32 : N.
Variables pt_ok pk_ok xonly_ok : bytes -> bool.
Variables Hrip Hsha Hh160 Hh256 : bytes -> bytes.
Variables Hleaf Hbranch : bytes -> bytes.

Notation row_of_desc := (row_of_desc maxvec cap_txin cap_txout cap_vecu8 cap_h32 pt_ok pk_ok xonly_ok Hrip Hsha Hh160 Hh256 Hleaf Hbranch).
Notation TG := (Tg maxvec cap_txin cap_txout cap_vecu8 cap_h32 pt_ok pk_ok xonly_ok Hrip Hsha Hh160 Hh256 Hleaf Hbranch).
Notation TI := (Ti maxvec cap_txin cap_txout cap_vecu8 cap_h32 pt_ok pk_ok xonly_ok Hrip Hsha Hh160 Hh256 Hleaf Hbranch).
Notation TO := (To maxvec cap_txin cap_txout cap_vecu8 cap_h32 pt_ok pk_ok xonly_ok Hrip Hsha Hh160 Hh256 Hleaf Hbranch).
Notation POSTG := (postg maxvec cap_txin cap_txout cap_vecu8 cap_h32 pt_ok pk_ok xonly_ok Hrip Hsha Hh160 Hh256 Hleaf Hbranch).
Notation POSTI := (posti maxvec cap_txin cap_txout cap_vecu8 cap_h32 pt_ok pk_ok xonly_ok Hrip Hsha Hh160 Hh256 Hleaf Hbranch).
Notation POSTO := (posto maxvec cap_txin cap_txout cap_vecu8 cap_h32 pt_ok pk_ok xonly_ok Hrip Hsha Hh160 Hh256 Hleaf Hbranch).
Notation SER := (pset_serialize maxvec cap_txin cap_txout cap_vecu8 cap_h32 pt_ok pk_ok xonly_ok Hrip Hsha Hh160 Hh256 Hleaf Hbranch).
Notation DESER := (pset_deserialize maxvec cap_txin cap_txout cap_vecu8 cap_h32 pt_ok pk_ok xonly_ok Hrip Hsha Hh160 Hh256 Hleaf Hbranch).

(* every row built from a descriptor satisfies the row laws *)
Lemma row_of_desc_ok d : row_ok (row_of_desc d).
Proof. unfold PsetTables.row_of_desc. split; cbn [r_kcanon r_vcanon r_disc r_addr r_kind].
  - intros kd k H. destruct (mode_of (d_mode d));
      try (eapply kcanon_law; eauto; fail);
      (unfold whole_key in *; destruct kd; [discriminate|]; inversion H; subst; repeat split; try discriminate; lia).
  - intros k v c H. destruct (mode_of (d_mode d)); try (eapply vcanon_size; eauto; fail); inversion H; subst; lia.
  - intros proj D a b _ _ P. destruct (mode_of (d_mode d)); inversion D; subst proj;
      try (eapply key_proj_inj; eauto; fail); try (eapply proj_prop_inj; eauto; fail). unfold proj_bytes in P. now inversion P.
  - intros A. destruct (mode_of (d_mode d)); destruct A as [A|A]; try discriminate A; (split; [reflexivity|]); intros kd Hk; unfold whole_key; (destruct kd; [now elim Hk|reflexivity]). Qed.

Lemma rows_ok_map ds : rows_ok (map row_of_desc ds).
Proof. intros i r H. apply nth_error_In in H. apply in_map_iff in H as (d & <- & I). apply row_of_desc_ok. Qed.
(* every value canoniser is idempotent (TapTree included since fix aee9a45: Deserialize then Serialize is the identity on it) *)
Lemma v_idem_desc d : v_idem (row_of_desc d).
Proof. intros k v c. unfold PsetTables.row_of_desc. cbn [r_vcanon]. destruct (mode_of (d_mode d)); try (apply vcanon_idem); intros H; inversion H; subst; reflexivity. Qed.

Lemma ROg : rows_ok TG. Proof. unfold PsetTables.Tg. apply (rows_ok_map C07_GLOBAL_FIELDS). Qed.
Lemma ROi : rows_ok TI. Proof. unfold PsetTables.Ti. apply (rows_ok_map C07_INPUT_FIELDS). Qed.
Lemma ROo : rows_ok TO. Proof. unfold PsetTables.To. apply (rows_ok_map C07_OUTPUT_FIELDS). Qed.

Definition Gall (_ : nat) : Prop := True.
Lemma GI_map ds j r : nth_error (map row_of_desc ds) j = Some r -> Gall j -> v_idem r.
Proof. intros H _. apply nth_error_In in H. apply in_map_iff in H as (d & <- & I). apply v_idem_desc. Qed.
Lemma GIg j r : nth_error TG j = Some r -> Gall j -> v_idem r. Proof. unfold PsetTables.Tg. apply GI_map. Qed.
Lemma GIi j r : nth_error TI j = Some r -> Gall j -> v_idem r. Proof. unfold PsetTables.Ti. apply GI_map. Qed.
Lemma GIo j r : nth_error TO j = Some r -> Gall j -> v_idem r. Proof. unfold PsetTables.To. apply GI_map. Qed.

(* ---------------------------------------------------------------- the statements of the property *)
Definition wf_pset_c : pset -> Prop := wf_pset maxvec TG TI TO POSTG POSTI POSTO n_inputs n_outputs C07_PSET_CAP.
Lemma all_fixed p : pset_fixed TG TI TO Gall Gall Gall p.
Proof. split; [|split]; repeat (apply Forall_forall; intros); left; exact I. Qed.

Theorem rt_c p : wf_pset_c p -> DESER (SER p) = POk p.
Proof. apply pset_rt; assumption. Qed.
Theorem deserialize_wf_c bs p : DESER bs = POk p -> wf_pset_c p.
Proof. intros H. eapply (deserialize_wf maxvec Hmax Hmin TG TI TO POSTG POSTI POSTO n_inputs n_outputs C07_PSET_CAP ROg ROi ROo Gall Gall Gall GIg GIi GIo); eauto. apply all_fixed. Qed.
Theorem fixpoint_c bs p : DESER bs = POk p -> DESER (SER p) = POk p.
Proof. intros H. apply rt_c. eapply deserialize_wf_c; eauto. Qed.
Theorem counts_c bs p : DESER bs = POk p -> sanity_check n_inputs n_outputs p = true.
Proof. apply (deserialize_counts maxvec Hmax Hmin TG TI TO POSTG POSTI POSTO n_inputs n_outputs C07_PSET_CAP ROi ROo). Qed.

(* mandatory fields: what dec_map accepts has every mandatory row *)
Lemma missing_g bs m rest : dec_map maxvec TG POSTG bs = POk (m, rest) -> missing TG m = false /\ get_opt m (idx C07_GLOBAL_FIELDS (blit_of "ver"%lb)) = Some two_le.
Proof. unfold dec_map. destruct (dec_entries maxvec TG (S (length bs)) bs []) as [[m' r]|]; [|discriminate]. cbn [pbind fst].
  destruct (POSTG m') eqn:P; [discriminate|]. intros H; inversion H; subst. unfold PsetTables.postg in P.
  revert P. destruct (get_opt m _) as [v|]; [|discriminate]. destruct (bytes_eqb_spec v two_le) as [->|]; [|discriminate]. cbn [negb].
  destruct (missing TG m); [discriminate|]. auto. Qed.
Lemma missing_i bs m rest : dec_map maxvec TI POSTI bs = POk (m, rest) -> missing TI m = false.
Proof. unfold dec_map. destruct (dec_entries maxvec TI (S (length bs)) bs []) as [[m' r]|]; [|discriminate]. cbn [pbind fst].
  destruct (POSTI m') eqn:P; [discriminate|]. intros H; inversion H; subst. unfold PsetTables.posti in P. revert P. now destruct (missing TI m). Qed.
Lemma missing_o bs m rest : dec_map maxvec TO POSTO bs = POk (m, rest) -> missing TO m = false /\ POSTO m = None.
Proof. unfold dec_map. destruct (dec_entries maxvec TO (S (length bs)) bs []) as [[m' r]|]; [|discriminate]. cbn [pbind fst].
  destruct (POSTO m') eqn:P; [discriminate|]. intros H; inversion H; subst. split; [|exact P]. unfold PsetTables.posto in P. revert P. now destruct (missing TO m). Qed.

Lemma Forall2_refl {A} (R : A -> A -> Prop) : (forall x, R x x) -> forall l, Forall2 R l l.
Proof. intros H l. induction l; constructor; auto. Qed.
Lemma pset_equiv_refl p : pset_equiv maxvec Hleaf Hbranch p p.
Proof. assert (E : forall b e, entry_equiv maxvec Hleaf Hbranch b e e) by (intros; repeat split; auto).
  repeat split; repeat (apply Forall2_refl; intros); apply E. Qed.
(* the full conclusion of the fixpoint clause, for every accepted byte string *)
Theorem fixpoint_full_c bs p : DESER bs = POk p ->
  let c := SER p in exists p', DESER c = POk p' /\ pset_equiv maxvec Hleaf Hbranch p' p /\ SER p' = c.
Proof. intros H c. exists p. split; [now apply (fixpoint_c bs)|]. split; [apply pset_equiv_refl|reflexivity]. Qed.
(* no field of a table is assigned without a duplicate test (KOptLast): then duplicate rejection covers every key *)
Definition no_optlast (T : table) : bool := forallb (fun r => match r_kind r with KOptLast => false | _ => true end) T.
Lemma no_optlast_row T i r : no_optlast T = true -> nth_error T i = Some r -> r_kind r <> KOptLast.
Proof. unfold no_optlast. rewrite forallb_forall. intros F H E. specialize (F r (nth_error_In _ _ H)). now rewrite E in F. Qed.

(* text form *)
Definition to_string (p : pset) : bytes := b64_enc (SER p).
Definition from_str (s : bytes) : pres pset := match b64_dec s with Some b => DESER b | None => PErr EInvalid end.
Theorem rt_text_c p : wf_pset_c p -> from_str (to_string p) = POk p.
Proof. intros W. unfold from_str, to_string. rewrite b64_roundtrip. now apply rt_c. Qed.
End TABLES.
