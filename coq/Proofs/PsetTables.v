(* C07 — the generated tables satisfy the hypotheses of the generic theory (Proofs/PsetMaps.v); the instantiated theorems. *)
From Coq Require Import List Arith NArith ZArith Lia Bool ZifyN ZifyBool ZifyNat.
From Coq.Strings Require Import Byte.
From EV Require Import Base.Bytes Base.Codec Base.Base64 Gen.Tables Model.Tx Model.Taproot Model.PsetRaw Model.PsetMaps Model.PsetValues Model.PsetTables.
From EV Require Import Proofs.PsetRaw Proofs.PsetMaps Proofs.PsetValues.
Import ListNotations.
Open Scope N_scope.
Set Default Timeout 120.

(* ---- every field of a table that passes `route_ok` is reachable: the key `get_pairs` builds for it classifies back to it ---- *)
Section ROUTE.
Variable maxvec : N.
Hypothesis Hmax : maxvec + 1 < 2 ^ 64.
Hypothesis Hmin : 4 <= maxvec.
Variable T : table.
Hypothesis RT : route_ok T = true.
Lemma in_combine_seq' {A} (l : list A) : forall j d s, nth_error l j = Some d -> In ((s + j)%nat, d) (List.combine (seq s (length l)) l).
Proof. induction l as [|x l IH]; intros j d s H; [destruct j; discriminate|]. destruct j as [|j]; cbn in *.
  - inversion H; subst. left. f_equal. lia.
  - right. replace (s + S j)%nat with (S s + j)%nat by lia. now apply IH. Qed.
Lemma route_row i r : nth_error T i = Some r ->
  match r_addr r with
  | APlain t => find_idx (is_plain t) T = Some i /\ t <> xfc
  | APset s => find_idx (is_pset s) T = Some i
  | AProp => find_idx is_prop T = Some i
  | AUnk => find_idx is_unk T = Some i end.
Proof. intros H. unfold route_ok in RT. rewrite forallb_forall in RT. specialize (RT _ (in_combine_seq' T i r 0%nat H)). cbn [fst snd] in RT.
  destruct (r_addr r) as [t|s| |].
  - apply andb_true_iff in RT as [A B]. destruct (find_idx (is_plain t) T) as [j|]; [|discriminate]. apply Nat.eqb_eq in A. subst j. split; [reflexivity|].
    intros ->. rewrite byte_eqb_refl in B. discriminate.
  - destruct (find_idx (is_pset s) T) as [j|]; [|discriminate]. apply Nat.eqb_eq in RT. now subst.
  - destruct (find_idx is_prop T) as [j|]; [|discriminate]. apply Nat.eqb_eq in RT. now subst.
  - destruct (find_idx is_unk T) as [j|]; [|discriminate]. apply Nat.eqb_eq in RT. now subst. Qed.
Lemma no_plain_fc : find_idx (is_plain xfc) T = None.
Proof. destruct (find_idx (is_plain xfc) T) as [j|] eqn:F; [|reflexivity]. exfalso.
  destruct (find_idx_some _ _ _ F) as (r & R & P). pose proof (route_row _ _ R) as X. unfold is_plain in P.
  destruct (r_addr r) as [t| | |]; try discriminate. apply byte_eqb_true in P. subst t. now destruct X. Qed.
Theorem field_reachable i r k v : nth_error T i = Some r -> (exists t, r_addr r = APlain t) \/ (exists s, r_addr r = APset s) ->
  classify maxvec T (mk_key maxvec T (i, k, v)) = POk (i, k).
Proof. intros R A. pose proof (route_row _ _ R) as X. unfold mk_key. cbn [slot ekey fst snd]. rewrite R. destruct A as [[t A]|[s A]]; rewrite A in *.
  - destruct X as [X _]. unfold classify. now rewrite X.
  - unfold classify. rewrite no_plain_fc, byte_eqb_refl.
    rewrite (prop_dec_enc maxvec Hmax pset_prefix s k) by (unfold fitsb, pset_prefix; cbn [length]; lia). now rewrite bytes_eqb_refl, X. Qed.
End ROUTE.

Section TABLES.
Variable maxvec : N.
Hypothesis Hmax : maxvec + 1 < 2 ^ 64.
Hypothesis Hmin : 4 <= maxvec.
Variables cap_txin cap_txout cap_vecu8 cap_h32 : N.
Variables pt_ok pk_ok xonly_ok btctx_ok xpub_ok : bytes -> bool.
Variables Hrip Hsha Hh160 Hh256 : bytes -> bytes.
Variables Hleaf Hbranch : bytes -> bytes.

Notation row_of_desc := (row_of_desc maxvec cap_txin cap_txout cap_vecu8 cap_h32 pt_ok pk_ok xonly_ok btctx_ok xpub_ok Hrip Hsha Hh160 Hh256 Hleaf Hbranch).
Notation TG := (Tg maxvec cap_txin cap_txout cap_vecu8 cap_h32 pt_ok pk_ok xonly_ok btctx_ok xpub_ok Hrip Hsha Hh160 Hh256 Hleaf Hbranch).
Notation TI := (Ti maxvec cap_txin cap_txout cap_vecu8 cap_h32 pt_ok pk_ok xonly_ok btctx_ok xpub_ok Hrip Hsha Hh160 Hh256 Hleaf Hbranch).
Notation TO := (To maxvec cap_txin cap_txout cap_vecu8 cap_h32 pt_ok pk_ok xonly_ok btctx_ok xpub_ok Hrip Hsha Hh160 Hh256 Hleaf Hbranch).
Notation POSTG := (postg maxvec cap_txin cap_txout cap_vecu8 cap_h32 pt_ok pk_ok xonly_ok btctx_ok xpub_ok Hrip Hsha Hh160 Hh256 Hleaf Hbranch).
Notation POSTI := (posti maxvec cap_txin cap_txout cap_vecu8 cap_h32 pt_ok pk_ok xonly_ok btctx_ok xpub_ok Hrip Hsha Hh160 Hh256 Hleaf Hbranch).
Notation POSTO := (posto maxvec cap_txin cap_txout cap_vecu8 cap_h32 pt_ok pk_ok xonly_ok btctx_ok xpub_ok Hrip Hsha Hh160 Hh256 Hleaf Hbranch).
Notation SER := (pset_serialize maxvec cap_txin cap_txout cap_vecu8 cap_h32 pt_ok pk_ok xonly_ok btctx_ok xpub_ok Hrip Hsha Hh160 Hh256 Hleaf Hbranch).
Notation DESER := (pset_deserialize maxvec cap_txin cap_txout cap_vecu8 cap_h32 pt_ok pk_ok xonly_ok btctx_ok xpub_ok Hrip Hsha Hh160 Hh256 Hleaf Hbranch).

(* every row built from a descriptor whose key type is not TapTree satisfies the row laws *)
Lemma row_of_desc_ok d : ty_of_name (d_kty d) <> TyTapTree -> row_ok (row_of_desc d).
Proof. intros NK. unfold PsetTables.row_of_desc. split; cbn [r_kcanon r_vcanon r_disc r_addr r_kind].
  - intros kd k H. destruct (mode_of (d_mode d));
      try (eapply kcanon_law; eauto; fail);
      (unfold whole_key in *; destruct kd; [discriminate|]; inversion H; subst; repeat split; try discriminate; lia).
  - intros k v c H. destruct (mode_of (d_mode d)); try (eapply vcanon_size; eauto; fail); inversion H; subst; lia.
  - intros proj D a b _ _ P. destruct (mode_of (d_mode d)); inversion D; subst proj;
      try (eapply key_proj_inj; eauto; fail); try (eapply proj_prop_inj; eauto; fail). unfold proj_bytes in P. now inversion P.
  - intros A. destruct (mode_of (d_mode d)); destruct A as [A|A]; try discriminate A; (split; [reflexivity|]); intros kd Hk; unfold whole_key; (destruct kd; [now elim Hk|reflexivity]). Qed.

Lemma rows_ok_map ds : Forall (fun d => ty_of_name (d_kty d) <> TyTapTree) ds -> rows_ok (map row_of_desc ds).
Proof. intros F i r H. apply nth_error_In in H. apply in_map_iff in H as (d & <- & I). rewrite Forall_forall in F. apply row_of_desc_ok. now apply F. Qed.
Lemma v_idem_desc d : ty_of_name (d_vty d) <> TyTapTree -> v_idem (row_of_desc d).
Proof. intros NV k v c. unfold PsetTables.row_of_desc. cbn [r_vcanon]. destruct (mode_of (d_mode d)); try (apply vcanon_idem; exact NV); intros H; inversion H; subst; reflexivity. Qed.

Lemma in_combine_seq {A} (l : list A) : forall j d s, nth_error l j = Some d -> In ((s + j)%nat, d) (List.combine (seq s (length l)) l).
Proof. induction l as [|x l IH]; intros j d s H; [destruct j; discriminate|]. destruct j as [|j]; cbn in *.
  - inversion H; subst. left. f_equal. lia.
  - right. replace (s + S j)%nat with (S s + j)%nat by lia. now apply IH. Qed.
Lemma not_taptree t : is_taptree t = false -> t <> TyTapTree. Proof. intros H ->. discriminate. Qed.

(* what the kernel computes on the generated tables *)
Hypothesis TOK : taptree_only = true.

Lemma kty_fine_g : Forall (fun d => ty_of_name (d_kty d) <> TyTapTree) C07_GLOBAL_FIELDS /\ Forall (fun d => ty_of_name (d_vty d) <> TyTapTree) C07_GLOBAL_FIELDS /\
                   Forall (fun d => ty_of_name (d_kty d) <> TyTapTree) C07_INPUT_FIELDS /\ Forall (fun d => ty_of_name (d_vty d) <> TyTapTree) C07_INPUT_FIELDS.
Proof. unfold taptree_only in TOK. apply andb_true_iff in TOK as [A _]. rewrite forallb_forall in A.
  assert (X : forall d, In d (C07_GLOBAL_FIELDS ++ C07_INPUT_FIELDS) -> ty_of_name (d_kty d) <> TyTapTree /\ ty_of_name (d_vty d) <> TyTapTree).
  { intros d I. specialize (A d I). apply andb_true_iff in A as [A1 A2]. apply negb_true_iff in A1, A2. split; now apply not_taptree. }
  repeat split; apply Forall_forall; intros d I; apply X; apply in_or_app; auto. Qed.
Lemma fine_o : Forall (fun d => ty_of_name (d_kty d) <> TyTapTree) C07_OUTPUT_FIELDS /\
               forall j d, nth_error C07_OUTPUT_FIELDS j = Some d -> j <> idx_taptree -> ty_of_name (d_vty d) <> TyTapTree.
Proof. unfold taptree_only in TOK. apply andb_true_iff in TOK as [_ B]. rewrite forallb_forall in B.
  assert (X : forall j d, nth_error C07_OUTPUT_FIELDS j = Some d -> In (j, d) (List.combine (seq 0 (length C07_OUTPUT_FIELDS)) C07_OUTPUT_FIELDS)).
  { intros j d H. apply (in_combine_seq C07_OUTPUT_FIELDS j d 0%nat H). }
  split.
  - apply Forall_forall. intros d I. apply In_nth_error in I as [j H]. specialize (B _ (X _ _ H)). cbn [fst snd] in B.
    apply andb_true_iff in B as [B1 _]. apply negb_true_iff in B1. now apply not_taptree.
  - intros j d H NJ. specialize (B _ (X _ _ H)). cbn [fst snd] in B. apply andb_true_iff in B as [_ B2]. apply orb_true_iff in B2 as [B2|B2].
    + apply negb_true_iff in B2. now apply not_taptree.
    + apply Nat.eqb_eq in B2. contradiction. Qed.

Lemma ROg : rows_ok TG. Proof. unfold PsetTables.Tg. apply (rows_ok_map C07_GLOBAL_FIELDS). exact (proj1 kty_fine_g). Qed.
Lemma ROi : rows_ok TI. Proof. unfold PsetTables.Ti. apply (rows_ok_map C07_INPUT_FIELDS). exact (proj1 (proj2 (proj2 kty_fine_g))). Qed.
Lemma ROo : rows_ok TO. Proof. unfold PsetTables.To. apply (rows_ok_map C07_OUTPUT_FIELDS). exact (proj1 fine_o). Qed.

Definition Gall (_ : nat) : Prop := True.
Definition Gout (j : nat) : Prop := j <> idx_taptree.
Lemma GIg j r : nth_error TG j = Some r -> Gall j -> v_idem r.
Proof. intros H _. unfold PsetTables.Tg in H. rewrite nth_error_map in H. revert H. match goal with |- context [option_map _ ?X] => destruct X as [d|] eqn:E end; cbn [option_map]; intros H; [|discriminate H]. injection H as <-.
  apply v_idem_desc. destruct kty_fine_g as (_ & F & _). rewrite Forall_forall in F. apply F. eapply nth_error_In; eauto. Qed.
Lemma GIi j r : nth_error TI j = Some r -> Gall j -> v_idem r.
Proof. intros H _. unfold PsetTables.Ti in H. rewrite nth_error_map in H. revert H. match goal with |- context [option_map _ ?X] => destruct X as [d|] eqn:E end; cbn [option_map]; intros H; [|discriminate H]. injection H as <-.
  apply v_idem_desc. destruct kty_fine_g as (_ & _ & _ & F). rewrite Forall_forall in F. apply F. eapply nth_error_In; eauto. Qed.
Lemma GIo j r : nth_error TO j = Some r -> Gout j -> v_idem r.
Proof. intros H NJ. unfold PsetTables.To in H. rewrite nth_error_map in H. revert H. match goal with |- context [option_map _ ?X] => destruct X as [d|] eqn:E end; cbn [option_map]; intros H; [|discriminate H]. injection H as <-.
  apply v_idem_desc. destruct fine_o as [_ F]. eapply F; eauto. Qed.

(* ---------------------------------------------------------------- the statements of the property *)
Definition wf_pset_c : pset -> Prop := wf_pset maxvec TG TI TO POSTG POSTI POSTO n_inputs n_outputs C07_PSET_CAP.
(* every tap_tree value stored in an output is a fixed point of the TapTree canoniser (true of single-leaf trees; false of
   every tree with two or more leaves: finding F9) *)
Definition taptrees_stable (p : pset) : Prop :=
  Forall (fun m => Forall (fun e => slot e = idx_taptree -> vfixed TO e) m) (p_outputs p).

Definition no_taptree (p : pset) : bool := forallb (forallb (fun e => negb (Nat.eqb (slot e) idx_taptree))) (p_outputs p).
Lemma no_taptree_stable p : no_taptree p = true -> taptrees_stable p.
Proof. unfold no_taptree, taptrees_stable. rewrite forallb_forall, Forall_forall. intros H m Hm. specialize (H m Hm).
  rewrite forallb_forall in H. apply Forall_forall. intros e He E. specialize (H e He). rewrite E, Nat.eqb_refl in H. discriminate. Qed.
Lemma stable_fixed p : taptrees_stable p -> pset_fixed TG TI TO Gall Gall Gout p.
Proof. intros S. split; [|split].
  - apply Forall_forall. intros e _. left. exact I.
  - apply Forall_forall. intros m _. apply Forall_forall. intros e _. left. exact I.
  - unfold taptrees_stable in S. rewrite Forall_forall in *. intros m Hm. specialize (S m Hm). unfold pmap_ok. rewrite Forall_forall in *. intros e He.
    destruct (Nat.eq_dec (slot e) idx_taptree) as [E|NE]; [right; now apply S|left; exact NE]. Qed.

Theorem rt_c p : wf_pset_c p -> DESER (SER p) = POk p.
Proof. apply pset_rt; assumption. Qed.
Theorem deserialize_wf_c bs p : DESER bs = POk p -> taptrees_stable p -> wf_pset_c p.
Proof. intros H S. eapply (deserialize_wf maxvec Hmax Hmin TG TI TO POSTG POSTI POSTO n_inputs n_outputs C07_PSET_CAP ROg ROi ROo Gall Gall Gout GIg GIi GIo); eauto. now apply stable_fixed. Qed.
Theorem fixpoint_c bs p : DESER bs = POk p -> taptrees_stable p -> DESER (SER p) = POk p.
Proof. intros H S. apply rt_c. eapply deserialize_wf_c; eauto. Qed.
Theorem counts_c bs p : DESER bs = POk p -> sanity_check n_inputs n_outputs p = true.
Proof. apply (deserialize_counts maxvec Hmax Hmin TG TI TO POSTG POSTI POSTO n_inputs n_outputs C07_PSET_CAP ROi ROo). Qed.

(* mandatory fields: what dec_map accepts has every mandatory row *)
Lemma missing_g bs m rest : dec_map maxvec TG POSTG bs = POk (m, rest) -> missing TG m = false /\ get_opt m (idx C07_GLOBAL_FIELDS (blit_of "ver"%lb)) = Some two_le.
Proof. unfold dec_map. destruct (dec_entries maxvec TG (S (length bs)) bs []) as [[m' r]|]; [|discriminate]. cbn [pbind fst].
  destruct (POSTG m') eqn:P; [discriminate|]. intros H; inversion H; subst. unfold PsetTables.postg in P.
  revert P. destruct (get_opt m _) as [v|]; [|discriminate]. destruct (bytes_eqb_spec v two_le) as [->|]; [|discriminate]. cbn [negb].
  destruct (missing TG m); [discriminate|]. auto. Qed.
Lemma missing_i bs m rest : dec_map maxvec TI POSTI bs = POk (m, rest) -> missing TI m = false.
Proof. unfold dec_map. destruct (dec_entries maxvec TI (S (length bs)) bs []) as [[m' r]|]; [|discriminate]. cbn [pbind fst].
  destruct (POSTI m') eqn:P; [discriminate|]. intros H; inversion H; subst. unfold PsetTables.posti in P. revert P. now destruct (missing TI m). Qed.
Lemma missing_o bs m rest : dec_map maxvec TO POSTO bs = POk (m, rest) -> missing TO m = false /\ POSTO m = None.
Proof. unfold dec_map. destruct (dec_entries maxvec TO (S (length bs)) bs []) as [[m' r]|]; [|discriminate]. cbn [pbind fst].
  destruct (POSTO m') eqn:P; [discriminate|]. intros H; inversion H; subst. split; [|exact P]. unfold PsetTables.posto in P. revert P. now destruct (missing TO m). Qed.

Lemma Forall2_refl {A} (R : A -> A -> Prop) : (forall x, R x x) -> forall l, Forall2 R l l.
Proof. intros H l. induction l; constructor; auto. Qed.
Lemma pset_equiv_refl p : pset_equiv maxvec Hleaf Hbranch p p.
Proof. assert (E : forall b e, entry_equiv maxvec Hleaf Hbranch b e e) by (intros; repeat split; auto).
  repeat split; repeat (apply Forall2_refl; intros); apply E. Qed.
(* the full conclusion of the fixpoint clause, for PSETs outside the F9 class *)
Theorem fixpoint_full_c bs p : DESER bs = POk p -> taptrees_stable p ->
  let c := SER p in exists p', DESER c = POk p' /\ pset_equiv maxvec Hleaf Hbranch p' p /\ SER p' = c.
Proof. intros H S c. exists p. split; [now apply (fixpoint_c bs)|]. split; [apply pset_equiv_refl|reflexivity]. Qed.

(* a single-leaf tap tree is a fixed point of the canoniser *)
Lemma taptree_single v s : leafver_ok (b2n v) = true -> N.of_nat (length s) <= maxvec ->
  canon_taptree maxvec Hleaf Hbranch (x00 :: v :: enc (c_varbytes maxvec) s) = POk (x00 :: v :: enc (c_varbytes maxvec) s).
Proof. intros LV Ls. unfold canon_taptree, taptree_node.
  assert (W : wf (c_varbytes maxvec) s = true) by (cbn; apply andb_true_iff; split; lia).
  pose proof (l_complete (c_varbytes_lawful maxvec) s [] W) as D. rewrite app_nil_r in D.
  cbn [length taptree_items]. rewrite D, LV. assert (T0 : forall f, taptree_items maxvec (S f) [] = Some []) by reflexivity. try rewrite T0. cbn [taptree_items].
  change (run Hleaf Hbranch [ILeaf (b2n x00) s v] []) with (@Ok berr br [Some (new_leaf Hleaf s v)]).
  unfold taptree_ser, new_leaf. cbn [n_leaves flat_map l_branch l_ver l_script length N.of_nat]. now rewrite app_nil_r. Qed.

(* text form *)
Definition to_string (p : pset) : bytes := b64_enc (SER p).
Definition from_str (s : bytes) : pres pset := match b64_dec s with Some b => DESER b | None => PErr EInvalid end.
Theorem rt_text_c p : wf_pset_c p -> from_str (to_string p) = POk p.
Proof. intros W. unfold from_str, to_string. rewrite b64_roundtrip. now apply rt_c. Qed.
End TABLES.
