(* The consensus codecs' canonicity predicates imply the serde invariants of Model/Serde.v (so every C20_serde theorem also holds
   under `wf (c_T ..) x = true`, the hypothesis of C01). *)
From Coq Require Import List NArith ZArith Bool Lia ZifyN ZifyBool ZifyNat.
From Coq.Strings Require Import Byte.
From EV Require Import Base.Bytes Base.Codec Gen.Tables Model.Tx Model.Block Model.Text Model.Serde Proofs.Text Proofs.Serde.
Import ListNotations.
Ltac Zify.zify_post_hook ::= Z.div_mod_to_equations.
Open Scope N_scope.
Set Default Timeout 20.
Local Opaque tweak_ok rangeproof_ok surjproof_ok.

Ltac split_all := repeat match goal with H : (_ && _ = true) |- _ => let H2 := fresh "W" in apply andb_prop in H as [H H2] end.
Ltac hyp := match goal with H : ?A = true |- ?B = true => constr_eq A B; exact H end.
Ltac conj_all := repeat match goal with |- (_ && _ = true) => apply andb_true_intro; split end.

Section BRIDGE.
Variable pt_ok : bytes -> bool.
Variables maxvec ci co cv ct : N.

Lemma br_value v : wf (c_value pt_ok) v = true -> swf_value pt_ok v = true.
Proof. destruct v; cbn [wf c_value value_wf swf_value c_be]; auto. Qed.
Lemma br_asset v : wf (c_asset pt_ok) v = true -> swf_asset pt_ok v = true.
Proof. destruct v; cbn [wf c_asset asset_wf swf_asset]; auto. Qed.
Lemma br_nonce v : wf (c_nonce pt_ok) v = true -> swf_nonce pt_ok v = true.
Proof. destruct v; cbn [wf c_nonce nonce_wf swf_nonce]; auto. Qed.
Lemma u32_of_wf n : wf c_u32 n = true -> u32_ok n = true.
Proof. unfold u32_ok, u32_bound, c_u32, c_le. cbn [wf]. change (256 ^ N.of_nat 4) with 4294967296. auto. Qed.
Lemma br_issuance i : wf (c_issuance pt_ok) i = true -> swf_issuance pt_ok i = true.
Proof. unfold c_issuance, c_tweak, c_hash32. cbn [wf c_conv c_pair c_guard c_fixed]. intros H. split_all. unfold swf_issuance, len_is.
  conj_all; try hyp; now apply br_value. Qed.
Lemma br_optproof ok o : wf (c_optproof maxvec ok) o = true -> swf_optproof ok o = true.
Proof. unfold c_optproof. cbn [wf c_conv]. intros H. split_all. destruct o as [p|]; cbn [swf_optproof]; [|reflexivity].
  split_all. hyp. Qed.
Lemma br_inwit w : wf (c_inwit maxvec cv) w = true -> swf_inwit w = true.
Proof. unfold c_inwit, c_rangeproof. cbn [wf c_conv c_pair]. intros H. split_all. unfold swf_inwit. conj_all; now apply br_optproof. Qed.
Lemma br_outwit w : wf (c_outwit maxvec) w = true -> swf_outwit w = true.
Proof. unfold c_outwit, c_rangeproof, c_surjproof. cbn [wf c_conv c_pair]. intros H. split_all. unfold swf_outwit. conj_all; now apply br_optproof. Qed.
Lemma empty_inwit_swf w : inwit_is_empty w = true -> swf_inwit w = true.
Proof. unfold inwit_is_empty, swf_inwit. destruct (w_amount_rp w), (w_keys_rp w); try discriminate. reflexivity. Qed.
Lemma empty_outwit_swf w : outwit_is_empty w = true -> swf_outwit w = true.
Proof. unfold outwit_is_empty, swf_outwit. destruct (w_surj w), (w_range w); try discriminate. reflexivity. Qed.

(* the part of swf_txin that does not concern the witness *)
Definition swf_txin_core (i : txin) : bool := swf_outpoint (in_prev i) && u32_ok (in_seq i) && swf_issuance pt_ok (in_iss i).
Lemma swf_txin_split i : swf_txin pt_ok i = swf_txin_core i && swf_inwit (in_wit i). Proof. reflexivity. Qed.
Lemma default_issuance_swf i : issuance_is_default i = true -> swf_issuance pt_ok i = true.
Proof. unfold issuance_is_default, issuance_is_null, value_is_null. intros H. split_all.
  destruct (bytes_eqb_spec (i_nonce i) zero32) as [E1|]; [|discriminate]. destruct (bytes_eqb_spec (i_entropy i) zero32) as [E2|]; [|discriminate].
  unfold swf_issuance. rewrite E1, E2. destruct (i_amount i); try discriminate. destruct (i_keys i); try discriminate. vm_compute. reflexivity. Qed.
Lemma br_txin_core i : wf (c_txin_nowit pt_ok maxvec) i = true -> swf_txin_core i = true /\ inwit_is_empty (in_wit i) = true.
Proof. unfold c_txin_nowit. cbn [wf c_conv]. intros H. apply andb_prop in H as [B H]. unfold txin_wfB in B.
  unfold c_txin_wire, wire_of_txin in H. cbn [wf c_dep fst snd] in H. apply andb_prop in H as [Hh Hi].
  unfold c_txin_head, c_hash32 in Hh. cbn [wf c_pair c_fixed] in Hh. split_all. split; [|hyp].
  unfold swf_txin_core, swf_outpoint, len_is. conj_all.
  - hyp.
  - unfold u32_ok, u32_bound. apply N.ltb_lt. unfold bit30, u32max in B.
    apply orb_prop in B as [B|B]; split_all; [apply N.ltb_lt in B; lia|apply N.eqb_eq in B; lia].
  - now apply u32_of_wf.
  - destruct (wire_has_issuance _) in Hi.
    + now apply br_issuance.
    + cbn [wf c_conv c_unit] in Hi. apply andb_prop in Hi as [Hd _]. now apply default_issuance_swf. Qed.
Lemma br_txin i : wf (c_txin pt_ok maxvec) i = true -> swf_txin pt_ok i = true.
Proof. intros H. destruct (br_txin_core i H) as [C E]. rewrite swf_txin_split, C. now rewrite empty_inwit_swf. Qed.

Definition swf_txout_core (o : txout) : bool := swf_asset pt_ok (out_asset o) && swf_value pt_ok (out_value o) && swf_nonce pt_ok (out_nonce o).
Lemma swf_txout_split o : swf_txout pt_ok o = swf_txout_core o && swf_outwit (out_wit o). Proof. reflexivity. Qed.
Lemma br_txout_core o : wf (c_txout_nowit pt_ok maxvec) o = true -> swf_txout_core o = true /\ outwit_is_empty (out_wit o) = true.
Proof. unfold c_txout_nowit. cbn [wf c_conv c_pair]. intros H. split_all. split; [|hyp]. unfold swf_txout_core. conj_all.
  - now apply br_asset. - now apply br_value. - now apply br_nonce. Qed.
Lemma br_txout o : wf (c_txout pt_ok maxvec) o = true -> swf_txout pt_ok o = true.
Proof. intros H. destruct (br_txout_core o H) as [C E]. rewrite swf_txout_split, C. now rewrite empty_outwit_swf. Qed.

Lemma br_ins ins : forallb (wf (c_txin_nowit pt_ok maxvec)) (map (strip_in) ins) = true -> forallb swf_inwit (map in_wit ins) = true ->
  forallb (swf_txin pt_ok) ins = true.
Proof. induction ins as [|a l IH]; [reflexivity|]. cbn [map forallb]. intros H1 H2. split_all.
  rewrite swf_txin_split. destruct (br_txin_core _ H1) as [C _]. change (swf_txin_core (strip_in a)) with (swf_txin_core a) in C.
  rewrite C, H2. cbn [andb]. now apply IH. Qed.
Lemma br_outs outs : forallb (wf (c_txout_nowit pt_ok maxvec)) (map (strip_out) outs) = true -> forallb swf_outwit (map out_wit outs) = true ->
  forallb (swf_txout pt_ok) outs = true.
Proof. induction outs as [|a l IH]; [reflexivity|]. cbn [map forallb]. intros H1 H2. split_all.
  rewrite swf_txout_split. destruct (br_txout_core _ H1) as [C _]. change (swf_txout_core (strip_out a)) with (swf_txout_core a) in C.
  rewrite C, H2. cbn [andb]. now apply IH. Qed.
Lemma no_inwits ins : existsb (fun i => negb (inwit_is_empty (in_wit i))) ins = false -> forallb swf_inwit (map in_wit ins) = true.
Proof. induction ins as [|a l IH]; [reflexivity|]. cbn [existsb map forallb]. intros H. apply orb_false_elim in H as [Ha Hl].
  apply negb_false_iff in Ha. rewrite (empty_inwit_swf _ Ha). now apply IH. Qed.
Lemma no_outwits outs : existsb (fun o => negb (outwit_is_empty (out_wit o))) outs = false -> forallb swf_outwit (map out_wit outs) = true.
Proof. induction outs as [|a l IH]; [reflexivity|]. cbn [existsb map forallb]. intros H. apply orb_false_elim in H as [Ha Hl].
  apply negb_false_iff in Ha. rewrite (empty_outwit_swf _ Ha). now apply IH. Qed.
Lemma forallb_impl {A} (P Q : A -> bool) l : (forall x, P x = true -> Q x = true) -> forallb P l = true -> forallb Q l = true.
Proof. intros H. induction l as [|a l IH]; [reflexivity|]. cbn. intros E. apply andb_prop in E as [Ea El]. now rewrite (H a Ea), IH. Qed.

Lemma br_tx t : wf (c_tx pt_ok maxvec ci co cv) t = true -> swf_tx pt_ok t = true.
Proof. unfold c_tx. cbn [wf c_conv]. unfold c_tx_wire, wire_of_tx. cbn [wf c_dep]. intros H. apply andb_prop in H as [_ H]. apply andb_prop in H as [Hh Hw].
  unfold c_tx_head in Hh. cbn [wf c_pair c_vec] in Hh. split_all.
  unfold c_tx_wits, head_flag, head_ins, head_outs in Hw. cbn [fst snd] in Hw.
  unfold swf_tx. conj_all.
  - now apply u32_of_wf. - now apply u32_of_wf.
  - apply br_ins; [hyp|]. destruct (has_witness t) eqn:HW.
    + cbn [N.eqb Pos.eqb] in Hw. cbn [wf c_pair c_vecn] in Hw. split_all.
      match goal with H : forallb (wf (c_inwit _ _)) _ = true |- _ => eapply forallb_impl; [|exact H] end. intros x Hx. now apply (br_inwit x).
    + unfold has_witness in HW. apply orb_false_elim in HW as [HW _]. now apply no_inwits.
  - apply br_outs; [hyp|]. destruct (has_witness t) eqn:HW.
    + cbn [N.eqb Pos.eqb] in Hw. cbn [wf c_pair c_vecn] in Hw. split_all.
      match goal with H : forallb (wf (c_outwit _)) _ = true |- _ => eapply forallb_impl; [|exact H] end. intros x Hx. now apply (br_outwit x).
    + unfold has_witness in HW. apply orb_false_elim in HW as [_ HW]. now apply no_outwits. Qed.

(* ---- params, header, block ---- *)
Lemma br_params p : wf (c_params maxvec cv) p = true -> swf_params p = true.
Proof. unfold c_params. cbn [wf c_conv c_dep]. intros H. apply andb_prop in H as [_ H]. apply andb_prop in H as [_ H].
  destruct p as [|s l e|f]; [reflexivity| |]; unfold c_params_body, params_tag in H; cbn [N.eqb Pos.eqb] in H.
  - cbn [wf c_conv c_pair] in H. split_all. unfold swf_params. conj_all; [now apply u32_of_wf|]. unfold c_hash32, c_fixed in W1. cbn [wf] in W1. exact W1.
  - cbn [wf c_conv] in H. apply andb_prop in H as [_ H]. unfold c_fullparams in H. cbn [wf c_conv c_pair] in H. split_all. unfold swf_params. now apply u32_of_wf. Qed.
Lemma br_extdata e : (match e with EProof _ _ => wf (c_ext_proof maxvec) e | EDynafed _ _ _ => wf (c_ext_dynafed maxvec cv) e end) = true -> swf_extdata e = true.
Proof. destruct e as [c s|c p w]; [reflexivity|]. unfold c_ext_dynafed. cbn [wf c_conv c_pair]. intros H. split_all.
  unfold swf_extdata. conj_all; now apply br_params. Qed.
Lemma br_header h : wf (c_header maxvec cv) h = true -> swf_header h = true.
Proof. unfold c_header. cbn [wf c_conv]. unfold c_header_wire, wire_of_header. cbn [wf c_dep]. intros H. apply andb_prop in H as [Hv H]. apply andb_prop in H as [Hh He].
  unfold c_header_head, c_hash32 in Hh. cbn [wf c_pair c_fixed] in Hh. split_all. unfold swf_header, len_is. conj_all; try hyp;
    try (match goal with |- u32_ok ?x = true => match goal with H : wf c_u32 x = true |- _ => exact (u32_of_wf x H) end end).
  - unfold u32_ok, u32_bound. apply N.ltb_lt. apply N.ltb_lt in Hv. unfold Block.bit31 in Hv. lia.
  - apply br_extdata. cbn [fst] in He. unfold wire_version, wire_is_dyna in He. destruct (h_ext h) as [c s|c p w]; cbn [ext_is_dynafed] in He.
    + apply N.ltb_lt in Hv. unfold Block.bit31 in Hv.
      assert (E : N.shiftr (h_version h) 31 =? 1 = false).
      { apply N.eqb_neq. rewrite N.shiftr_div_pow2. change (2 ^ 31) with 2147483648. intros E. assert (h_version h / 2147483648 = 0) by (apply N.div_small; lia). lia. }
      now rewrite E in He.
    + apply N.ltb_lt in Hv. unfold Block.bit31 in *.
      assert (E : N.shiftr (N.lor (h_version h) 2147483648) 31 =? 1 = true).
      { apply N.eqb_eq. rewrite N.shiftr_lor. rewrite !N.shiftr_div_pow2. change (2 ^ 31) with 2147483648.
        rewrite (N.div_small (h_version h)) by lia. reflexivity. }
      now rewrite E in He. Qed.
Lemma br_block b : wf (c_block pt_ok maxvec ci co cv ct) b = true -> swf_block pt_ok b = true.
Proof. unfold c_block. cbn [wf c_conv c_pair c_vec]. intros H. split_all. unfold swf_block. conj_all; [now apply br_header|].
  match goal with H : forallb (wf (c_tx _ _ _ _ _)) _ = true |- _ => eapply forallb_impl; [|exact H] end. intros x Hx. now apply br_tx. Qed.
End BRIDGE.
