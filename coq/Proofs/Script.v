(* Proofs for C16 (Model/Script.v). *)
From Coq Require Import List NArith ZArith Bool Lia ZifyN ZifyBool ZifyNat.
From Coq.Strings Require Import Byte.
From EV Require Import Base.Bytes Gen.Tables Model.Script.
Import ListNotations.
Ltac Zify.zify_post_hook ::= Z.div_mod_to_equations.
Open Scope N_scope.

(* ------------------------------------------------------------------ opcode classes, by enumeration of the 256 bytes *)
Lemma classify_push b : b2n b <= 75 -> classify_legacy (b2n b) = CPushBytes (b2n b).
Proof. destruct b; vm_compute; intros H; try reflexivity; exfalso; apply H; reflexivity. Qed.
Lemma classify_pushdata b : 76 <= b2n b <= 78 -> classify_legacy (b2n b) = COrdinary (b2n b).
Proof. destruct b; vm_compute; intros [H1 H2]; try reflexivity; exfalso; first [apply H1; reflexivity | apply H2; reflexivity]. Qed.
Definition plain_class (c : oclass) (n : N) : Prop :=
  match c with CPushBytes _ | CUnwrapNone => False | COrdinary c' => c' = n | _ => True end.
Lemma classify_other b : 78 < b2n b -> plain_class (classify_legacy (b2n b)) (b2n b).
Proof. destruct b; vm_compute; intros H; try discriminate H; try exact I; reflexivity. Qed.
(* Ordinary::try_from_all(..).unwrap() never fails in the Legacy context *)
Lemma classify_total b : classify_legacy (b2n b) <> CUnwrapNone.
Proof. destruct b; vm_compute; discriminate. Qed.

Lemma n2b_76 : n2b OP_PUSHDATA1 = x4c. Proof. reflexivity. Qed.
Lemma n2b_77 : n2b OP_PUSHDATA2 = x4d. Proof. reflexivity. Qed.
Lemma n2b_78 : n2b OP_PUSHDATA4 = x4e. Proof. reflexivity. Qed.

Lemma lenN_cons x s : lenN (x :: s) = 1 + lenN s. Proof. unfold lenN. cbn [length]. lia. Qed.
Lemma lenN_app a b : lenN (a ++ b) = lenN a + lenN b. Proof. unfold lenN. rewrite app_length. lia. Qed.
Lemma lenN_nil : lenN [] = 0. Proof. reflexivity. Qed.
Lemma to_nat_lenN d : N.to_nat (lenN d) = length d. Proof. unfold lenN. lia. Qed.
Lemma firstn_len_app {A} (d r : list A) : firstn (length d) (d ++ r) = d.
Proof. rewrite firstn_app, Nat.sub_diag, firstn_O, app_nil_r. apply firstn_all. Qed.
Lemma skipn_len_app {A} (d r : list A) : skipn (length d) (d ++ r) = r.
Proof. rewrite skipn_app, Nat.sub_diag, skipn_all. reflexivity. Qed.

Lemma next_op m c tl : 78 < b2n c -> next m (c :: tl) = Some (IOp c, tl).
Proof. intros H. pose proof (classify_other c H) as P. unfold next.
  destruct (classify_legacy (b2n c)) eqn:E; cbn in P; try contradiction; try reflexivity.
  subst c0. unfold OP_PUSHDATA1, OP_PUSHDATA2, OP_PUSHDATA4.
  destruct (N.eqb_spec (b2n c) 76); [lia|]. destruct (N.eqb_spec (b2n c) 77); [lia|]. destruct (N.eqb_spec (b2n c) 78); [lia|]. reflexivity. Qed.

(* ------------------------------------------------------------------ decoding one push, any of the four header forms *)
Definition hdr_minimal (h : bytes) (n : N) : bool :=
  match h with [_] => true | [_; _] => 76 <=? n | [_; _; _] => 0x100 <=? n | _ => 0x10000 <=? n end.

Lemma bad_single_len d : bad_single d = true -> lenN d = 1.
Proof. destruct d as [|x [|y r]]; cbn; try discriminate. reflexivity. Qed.

Lemma le_val_le_enc2 n : n < 0x10000 -> le_val (le_enc 2 n) = n.
Proof. intros. apply le_val_enc. exact H. Qed.
Lemma le_val_le_enc4 n : n < 0x100000000 -> le_val (le_enc 4 n) = n.
Proof. intros. apply le_val_enc. exact H. Qed.

Lemma next_pushdata m k (c : byte) (min_n : N) (mf : bool) d rest :
  lenN d < 256 ^ N.of_nat k ->
  pushdata_arm m (c :: le_enc k (lenN d) ++ d ++ rest) (le_enc k (lenN d) ++ d ++ rest) k min_n mf
  = if m && (lenN d <? min_n) then (IErr NonMinimalPush, []) else (IPush d, rest).
Proof. intros Hn. unfold pushdata_arm.
  assert (L : lenN (c :: le_enc k (lenN d) ++ d ++ rest) = 1 + N.of_nat k + lenN d + lenN rest).
  { rewrite lenN_cons, !lenN_app. unfold lenN at 1. rewrite le_enc_length. lia. }
  rewrite L. destruct (N.ltb_spec (1 + N.of_nat k + lenN d + lenN rest) (N.of_nat k + 1)); [lia|].
  unfold read_uint. rewrite app_length, le_enc_length.
  destruct (Nat.ltb_spec (k + length (d ++ rest)) k); [lia|].
  assert (F : forall x, firstn k (le_enc k (lenN d) ++ x) = le_enc k (lenN d)).
  { intros x. rewrite <- (le_enc_length k (lenN d)) at 1. apply firstn_len_app. }
  assert (S : forall x, skipn k (le_enc k (lenN d) ++ x) = x).
  { intros x. rewrite <- (le_enc_length k (lenN d)) at 1. apply skipn_len_app. }
  rewrite !F, !S, le_val_enc by exact Hn.
  destruct (N.ltb_spec (1 + N.of_nat k + lenN d + lenN rest) (lenN d + N.of_nat k + 1)); [lia|].
  rewrite to_nat_lenN, firstn_len_app, skipn_len_app.
  destruct mf; destruct (m && (lenN d <? min_n)); reflexivity. Qed.

Lemma next_valid m h d rest : valid_header h (lenN d) ->
  next m (h ++ d ++ rest) = Some (if m && (negb (hdr_minimal h (lenN d)) || bad_single d)
                                  then (IErr NonMinimalPush, []) else (IPush d, rest)).
Proof. intros [[-> Hn] | [[-> Hn] | [[-> Hn] | [-> Hn]]]].
  - cbn [app]. unfold next. assert (B : b2n (n2b (lenN d)) = lenN d) by (apply b2n_n2b_small; lia).
    rewrite (classify_push (n2b (lenN d))) by (rewrite B; lia). rewrite B.
    rewrite lenN_cons, lenN_app. destruct (N.ltb_spec (1 + (lenN d + lenN rest)) (lenN d + 1)); [lia|].
    cbn [hdr_minimal negb orb].
    assert (C : ((lenN d =? 1) && (let d1 := b2n (nth 1 (n2b (lenN d) :: d ++ rest) x00) in (d1 =? 0x81) || ((0 <? d1) && (d1 <=? 16)))) = bad_single d).
    { destruct d as [|x [|y r]]; cbn [nth app bad_single]; try reflexivity.
      - cbn. destruct (b2n x =? 129); [reflexivity|]. cbn [orb]. destruct (N.ltb_spec 0 (b2n x)), (N.leb_spec 1 (b2n x)); try lia; reflexivity.
      - assert (lenN (x :: y :: r) =? 1 = false) as -> by (rewrite !lenN_cons; lia). reflexivity. }
    cbv zeta in C. rewrite <- andb_assoc, C. rewrite to_nat_lenN, firstn_len_app, skipn_len_app. destruct (m && bad_single d); reflexivity.
  - cbn [app]. unfold next. rewrite (classify_pushdata x4c) by (vm_compute; split; discriminate).
    change (b2n x4c =? OP_PUSHDATA1) with true. cbv iota.
    assert (B : n2b (lenN d) :: d ++ rest = le_enc 1 (lenN d) ++ d ++ rest) by reflexivity.
    rewrite B. rewrite next_pushdata by exact Hn. cbn [hdr_minimal].
    assert (bad_single d = true -> lenN d <? 76 = true) by (intros H; apply bad_single_len in H; rewrite H; reflexivity).
    destruct (N.ltb_spec (lenN d) 76), (N.leb_spec 76 (lenN d)); try lia; cbn [negb orb]; [reflexivity|].
    destruct (bad_single d); [discriminate (H eq_refl)|]. reflexivity.
  - cbn [app]. unfold next. rewrite (classify_pushdata x4d) by (vm_compute; split; discriminate).
    change (b2n x4d =? OP_PUSHDATA1) with false. change (b2n x4d =? OP_PUSHDATA2) with true. cbv iota.
    rewrite next_pushdata by exact Hn. cbn [hdr_minimal le_enc].
    assert (bad_single d = true -> lenN d <? 256 = true) by (intros H; apply bad_single_len in H; rewrite H; reflexivity).
    destruct (N.ltb_spec (lenN d) 256), (N.leb_spec 256 (lenN d)); try lia; cbn [negb orb]; [reflexivity|].
    destruct (bad_single d); [discriminate (H eq_refl)|]. reflexivity.
  - cbn [app]. unfold next. rewrite (classify_pushdata x4e) by (vm_compute; split; discriminate).
    change (b2n x4e =? OP_PUSHDATA1) with false. change (b2n x4e =? OP_PUSHDATA2) with false. change (b2n x4e =? OP_PUSHDATA4) with true. cbv iota.
    rewrite next_pushdata by exact Hn. cbn [hdr_minimal le_enc].
    assert (bad_single d = true -> lenN d <? 65536 = true) by (intros H; apply bad_single_len in H; rewrite H; reflexivity).
    destruct (N.ltb_spec (lenN d) 65536), (N.leb_spec 65536 (lenN d)); try lia; cbn [negb orb]; [reflexivity|].
    destruct (bad_single d); [discriminate (H eq_refl)|]. reflexivity.
Qed.

(* ------------------------------------------------------------------ the iterator: fuel, termination, no panic *)
Ltac break_ifs := repeat match goal with |- context [if ?c then _ else _] => destruct c end.

Lemma pushdata_arm_shorter m data tl k mn mf : (length (snd (pushdata_arm m data tl k mn mf)) <= length tl)%nat.
Proof. unfold pushdata_arm. destruct (read_uint tl k); break_ifs; cbn [snd length]; rewrite ?skipn_length; lia. Qed.
Lemma pushdata_arm_item m data tl k mn mf : match fst (pushdata_arm m data tl k mn mf) with IPanic _ | IFuel => False | _ => True end.
Proof. unfold pushdata_arm. destruct (read_uint tl k); break_ifs; cbn [fst]; exact I. Qed.

Lemma next_shorter m data it rest : next m data = Some (it, rest) -> (length rest < length data)%nat.
Proof. unfold next. destruct data as [|op tl]; [discriminate|].
  pose proof (pushdata_arm_shorter m (op :: tl) tl 1 76 false) as P1.
  pose proof (pushdata_arm_shorter m (op :: tl) tl 2 0x100 true) as P2.
  pose proof (pushdata_arm_shorter m (op :: tl) tl 4 0x10000 true) as P4.
  destruct (classify_legacy (b2n op)); break_ifs; intros E; inversion E; subst;
    try (match goal with H : pushdata_arm _ _ _ _ _ _ = _ |- _ => rewrite H in * end); cbn [length snd] in *; rewrite ?skipn_length; lia. Qed.
Lemma next_item m data it rest : next m data = Some (it, rest) -> match it with IPanic _ | IFuel => False | _ => True end.
Proof. unfold next. destruct data as [|op tl]; [discriminate|].
  pose proof (pushdata_arm_item m (op :: tl) tl 1 76 false) as P1.
  pose proof (pushdata_arm_item m (op :: tl) tl 2 0x100 true) as P2.
  pose proof (pushdata_arm_item m (op :: tl) tl 4 0x10000 true) as P4.
  pose proof (classify_total op) as T.
  destruct (classify_legacy (b2n op)); try congruence; break_ifs; intros E; inversion E; subst;
    try (match goal with H : pushdata_arm _ _ _ _ _ _ = _ |- _ => rewrite H in * end); cbn [fst] in *; try exact I; assumption. Qed.

Lemma instrs_fuel m : forall f1 f2 s, (length s < f1)%nat -> (length s < f2)%nat -> instrs f1 m s = instrs f2 m s.
Proof. induction f1 as [|f1 IH]; intros f2 s H1 H2; [lia|]. destruct f2 as [|f2]; [lia|]. cbn [instrs].
  destruct (next m s) as [[it rest]|] eqn:E; [|reflexivity]. f_equal. apply next_shorter in E. apply IH; lia. Qed.
Lemma instrs_step f m s it rest : next m s = Some (it, rest) -> instrs (S f) m s = it :: instrs f m rest.
Proof. intros E. cbn [instrs]. now rewrite E. Qed.
Lemma instructions_nil m : instructions m [] = [].
Proof. reflexivity. Qed.
Lemma instructions_cons m s it rest : next m s = Some (it, rest) -> instructions m s = it :: instructions m rest.
Proof. intros E. unfold instructions. rewrite (instrs_step _ _ _ _ _ E). f_equal. apply next_shorter in E. apply instrs_fuel; lia. Qed.
(* the fuel bound is never hit and classify's unwrap never panics: the stream consists of pushes, opcodes and errors *)
Lemma instrs_clean m : forall f s, (length s < f)%nat -> forall i, In i (instrs f m s) -> match i with IPanic _ | IFuel => False | _ => True end.
Proof. induction f as [|f IH]; intros s H i Hi; [lia|]. cbn [instrs] in Hi.
  destruct (next m s) as [[it rest]|] eqn:E; [|contradiction]. destruct Hi as [<-|Hi].
  - eapply next_item; eauto.
  - apply next_shorter in E. eapply IH; [|exact Hi]. lia. Qed.
Lemma instructions_clean m s i : In i (instructions m s) -> match i with IPanic _ | IFuel => False | _ => True end.
Proof. apply instrs_clean. lia. Qed.

(* ------------------------------------------------------------------ scripts made of builder pieces *)
Inductive Built : bytes -> list item -> Prop :=
| Built_nil : Built [] []
| Built_op c s its : 78 < b2n c -> Built s its -> Built (c :: s) (IOp c :: its)
| Built_push h d s its : push_header (lenN d) = Val h -> Built s its -> Built (h ++ d ++ s) (IPush d :: its).

Lemma push_header_valid n h : push_header n = Val h -> valid_header h n /\ hdr_minimal h n = true.
Proof. unfold push_header, valid_header, OP_PUSHDATA1, OP_PUSHDATA2, OP_PUSHDATA4.
  destruct (N.ltb_spec n 76). { intros E; inversion E; subst. split; [left; split; [reflexivity|lia]|reflexivity]. }
  destruct (N.ltb_spec n 256). { intros E; inversion E; subst. split; [right; left; split; [reflexivity|lia]|]. cbn. lia. }
  destruct (N.ltb_spec n 65536).
  { intros E; inversion E; subst. split; [right; right; left; split; [|lia]|cbn; lia]. cbn [le_enc]. f_equal. f_equal.
    - unfold n2b. now rewrite N.mod_mod by lia. }
  destruct (N.ltb_spec n 4294967296); [|discriminate].
  intros E; inversion E; subst. split; [right; right; right; split; [|lia]|cbn; lia]. cbn [le_enc]. f_equal. f_equal; [|f_equal; [|f_equal]].
  - unfold n2b. now rewrite N.mod_mod by lia.
  - unfold n2b. now rewrite N.mod_mod by lia.
  - unfold n2b. rewrite N.mod_mod by lia. rewrite N.div_div by lia. reflexivity.
  - f_equal. rewrite !N.div_div by lia. reflexivity. Qed.

Lemma Built_app s its : Built s its -> forall s' its', Built s' its' -> Built (s ++ s') (its ++ its').
Proof. induction 1; intros s' its' B'; cbn [app]; [assumption| |].
  - constructor; auto.
  - rewrite <- !app_assoc. constructor; auto. Qed.

Lemma Built_instructions s its : Built s its -> instructions false s = its.
Proof. induction 1.
  - reflexivity.
  - rewrite (instructions_cons false _ _ _ (next_op false c s H)). now f_equal.
  - apply push_header_valid in H as [V _]. rewrite (instructions_cons false _ _ _ (next_valid false h d s V)). cbn [andb]. now f_equal. Qed.
Lemma Built_instructions_minimal s its : Built s its -> instructions true s = cut_nonminimal its.
Proof. induction 1.
  - reflexivity.
  - rewrite (instructions_cons true _ _ _ (next_op true c s H)). cbn [cut_nonminimal]. now f_equal.
  - apply push_header_valid in H as [V M]. pose proof (next_valid true h d s V) as E. rewrite M in E. cbn [negb orb andb] in E.
    cbn [cut_nonminimal]. destruct (bad_single d).
    + rewrite (instructions_cons true _ _ _ E). reflexivity.
    + rewrite (instructions_cons true _ _ _ E). now f_equal. Qed.

(* ------------------------------------------------------------------ the builder invariant *)
Lemma fold_agree c : fold_item c = option_map n2b (verify_fold (b2n c)).
Proof. destruct c; reflexivity. Qed.
Lemma item_of_opcode_spec c : item_of_opcode c = if b2n c =? 0 then IPush [] else IOp c.
Proof. destruct c; reflexivity. Qed.
Lemma fold_item_op c v : fold_item c = Some v -> item_of_opcode c = IOp c /\ 78 < b2n v /\ item_of_opcode v = IOp v.
Proof. destruct c; cbn [fold_item]; intros E; inversion E; subst; repeat split; reflexivity. Qed.

Definition plain_opcode (c : byte) : Prop := b2n c = 0 \/ 78 < b2n c.
Lemma Built_single c : plain_opcode c -> Built [c] [item_of_opcode c].
Proof. intros [Z | H].
  - assert (c = x00) as -> by (apply b2n_inj; exact Z). change (Built ([x00] ++ [] ++ []) [IPush []]). constructor; [reflexivity|constructor].
  - rewrite item_of_opcode_spec. destruct (N.eqb_spec (b2n c) 0); [lia|]. constructor; [exact H|constructor]. Qed.

Definition Inv (b : builder) (racc : list item) : Prop :=
  Built (rev (rbytes b)) (rev racc) /\
  match last_op b with
  | Some c => exists rb' racc', rbytes b = c :: rb' /\ racc = item_of_opcode c :: racc' /\ Built (rev rb') (rev racc') /\ plain_opcode c
  | None => match racc with IOp _ :: _ => False | _ => True end end.

Lemma Inv_new : Inv b_new [].
Proof. split; [constructor|exact I]. Qed.

Lemma inv_push_opcode b racc c : Built (rev (rbytes b)) (rev racc) -> plain_opcode c -> Inv (push_opcode b c) (item_of_opcode c :: racc).
Proof. intros B P. split; cbn [push_opcode rbytes last_op rev].
  - apply Built_app; [exact B|apply Built_single; exact P].
  - exists (rbytes b), racc. auto. Qed.

Lemma inv_push_slice b racc d b' : Built (rev (rbytes b)) (rev racc) -> push_slice b d = Val b' -> Inv b' (IPush d :: racc).
Proof. intros B. unfold push_slice. destruct (push_header (lenN d)) as [h|] eqn:E; [|discriminate]. cbn [obind]. intros V; inversion V; subst; clear V.
  split; cbn [rbytes last_op rev]; [|exact I].
  rewrite !rev_append_rev, !rev_app_distr, !rev_involutive, <- app_assoc. apply Built_app; [exact B|].
  rewrite <- (app_nil_r d) at 1. constructor; [exact E|constructor]. Qed.

Lemma inv_verify p b racc : Inv b racc -> Inv (push_verify b) (expected_step p racc BVerify).
Proof. intros [B L]. unfold push_verify. destruct (last_op b) as [c|] eqn:LO.
  - destruct L as (rb' & racc' & R & -> & B' & P).
    assert (E : expected_step p (item_of_opcode c :: racc') BVerify
                = match fold_item c with Some v => IOp v :: racc' | None => item_of_opcode x69 :: item_of_opcode c :: racc' end).
    { cbn [expected_step]. rewrite item_of_opcode_spec. destruct (N.eqb_spec (b2n c) 0) as [Z|Z].
      - assert (c = x00) as -> by (apply b2n_inj; exact Z). reflexivity.
      - destruct (fold_item c); reflexivity. }
    rewrite E. pose proof (fold_agree c) as FA. destruct (verify_fold (b2n c)) as [v|] eqn:VF; cbn [option_map] in FA; rewrite FA.
    + destruct (fold_item_op _ _ FA) as (I1 & I2 & I3). rewrite <- I3. rewrite R. cbn [tl].
      apply (inv_push_opcode (mkB rb' (Some c)) racc' (n2b v)); [exact B'|right; exact I2].
    + apply (inv_push_opcode b (item_of_opcode c :: racc') x69); [exact B|right; reflexivity].
  - assert (X : expected_step p racc BVerify = item_of_opcode x69 :: racc).
    { cbn [expected_step]. destruct racc as [|[] ?]; try reflexivity. contradiction. }
    rewrite X. apply (inv_push_opcode b racc x69); [exact B|right; reflexivity]. Qed.

Lemma special_int n p : ((n =? -1) || ((1 <=? n) && (n <=? 16)))%Z = true ->
  let c := n2b (Z.to_N ((n - 1 + Z.of_N OP_TRUE) mod 256)) in int_item p n = item_of_opcode c /\ 78 < b2n c.
Proof. intros H.
  assert (C : (n = -1 \/ n = 1 \/ n = 2 \/ n = 3 \/ n = 4 \/ n = 5 \/ n = 6 \/ n = 7 \/ n = 8 \/ n = 9 \/ n = 10 \/ n = 11 \/ n = 12
              \/ n = 13 \/ n = 14 \/ n = 15 \/ n = 16)%Z) by lia.
  repeat (destruct C as [-> | C]); try subst n; split; reflexivity. Qed.

Lemma inv_step p b racc op b' : Inv b racc -> op_ok op = true -> step p b op = Val b' -> Inv b' (expected_step p racc op).
Proof. intros I OK S. pose proof I as [B _]. destruct op as [n|n|d|c|]; cbn [step expected_step] in *.
  - unfold push_int in S. destruct ((n =? -1) || ((1 <=? n) && (n <=? 16)))%Z eqn:SP.
    + inversion S; subst. destruct (special_int n p SP) as [E1 E2]. rewrite E1. apply inv_push_opcode; [exact B|right; exact E2].
    + destruct (n =? 0)%Z eqn:Z.
      * inversion S; subst. assert (int_item p n = item_of_opcode x00) as ->.
        { unfold int_item. apply Z.eqb_eq in Z. subst n. reflexivity. }
        apply (inv_push_opcode b racc x00); [exact B|left; reflexivity].
      * unfold push_scriptint in S. assert (int_item p n = IPush (scriptint_bytes p n)) as ->.
        { unfold int_item. apply orb_false_iff in SP as [-> ->]. rewrite Z. reflexivity. }
        unfold scriptint_bytes. destruct (build_scriptint p n) as [e|]; [|discriminate]. cbn [obind] in S. eapply inv_push_slice; eauto.
  - unfold push_scriptint in S. unfold scriptint_bytes. destruct (build_scriptint p n) as [e|]; [|discriminate]. cbn [obind] in S. eapply inv_push_slice; eauto.
  - eapply inv_push_slice; eauto.
  - inversion S; subst. apply inv_push_opcode; [exact B|]. unfold plain_opcode. cbn [op_ok] in OK.
    destruct (N.leb_spec 1 (b2n c)), (N.leb_spec (b2n c) 78); cbn in OK; try discriminate; lia.
  - inversion S; subst. apply (inv_verify p). exact I. Qed.

Lemma inv_run p : forall ops b racc b', Inv b racc -> forallb op_ok ops = true -> run p ops b = Val b' ->
  Inv b' (fold_left (expected_step p) ops racc).
Proof. induction ops as [|op ops IH]; intros b racc b' I OK R; cbn [run fold_left] in *.
  - inversion R; subst. exact I.
  - apply andb_true_iff in OK as [O1 O2]. destruct (step p b op) as [b1|] eqn:S; [|discriminate]. cbn [obind] in R.
    eapply IH; [|exact O2|exact R]. eapply inv_step; eauto. Qed.

Lemma build_Built p ops s : forallb op_ok ops = true -> build p ops = Val s -> Built s (expected p ops).
Proof. intros OK H. unfold build in H. destruct (run p ops b_new) as [b|] eqn:R; [|discriminate]. cbn [obind] in H. inversion H; subst.
  destruct (inv_run p ops b_new [] b Inv_new OK R) as [B _]. unfold into_script, rev', expected. rewrite <- rev_alt. exact B. Qed.

Theorem readback p ops s : forallb op_ok ops = true -> build p ops = Val s -> instructions false s = expected p ops.
Proof. intros OK H. apply Built_instructions. eapply build_Built; eauto. Qed.
Theorem readback_minimal p ops s : forallb op_ok ops = true -> build p ops = Val s -> instructions true s = cut_nonminimal (expected p ops).
Proof. intros OK H. apply Built_instructions_minimal. eapply build_Built; eauto. Qed.

(* ------------------------------------------------------------------ script numbers *)
Lemma byte_cases (P : N -> Prop) : (forall b, P (b2n b)) -> forall n, n < 256 -> P n.
Proof. intros H n L. rewrite <- (b2n_n2b_small n L). apply H. Qed.

(* the tail of build_scriptint once abs <= 0xFF *)
Definition si_tail (abs : N) (neg : bool) : bytes :=
  if negb (N.land abs 0x80 =? 0) then [n2b abs; if neg then x80 else x00] else [n2b (N.lor abs (if neg then 0x80 else 0))].
Lemma si_tail_spec abs neg : 0 < abs -> abs < 256 ->
  sm_dec (si_tail abs neg) = (neg, abs) /\ length (si_tail abs neg) = (if (abs <? 128)%N then 1%nat else 2%nat).
Proof. intros H L. revert H. pattern abs. apply byte_cases; [|exact L]. intros b. destruct b; destruct neg; vm_compute; intros H; try discriminate H; split; reflexivity. Qed.

Lemma sm_dec_cons b e : e <> [] -> sm_dec (b :: e) = (fst (sm_dec e), b2n b + 256 * snd (sm_dec e)).
Proof. destruct e as [|y r]; [congruence|]. intros _. cbn [sm_dec]. destruct r; [reflexivity|]. destruct (sm_dec (b0 :: r)). reflexivity. Qed.

Lemma si_loop_spec : forall fuel abs neg, 0 < abs -> abs < 256 ^ N.of_nat fuel ->
  exists e, si_loop fuel abs neg = Val e /\ sm_dec e = (neg, abs) /\ e <> [] /\
            forall j, (length e <= S j)%nat <-> abs < 128 * 256 ^ N.of_nat j.
Proof. induction fuel as [|f IH]; intros abs neg H0 HL.
  - cbn in HL. lia.
  - cbn [si_loop]. destruct (N.ltb_spec 255 abs) as [Big|Small].
    + rewrite Nnat.Nat2N.inj_succ, N.pow_succ_r' in HL.
      assert (S8 : N.shiftr abs 8 = abs / 256) by (rewrite N.shiftr_div_pow2; reflexivity).
      assert (L8 : N.land abs 255 = abs mod 256) by (change 255 with (N.ones 8); rewrite N.land_ones; reflexivity).
      rewrite S8, L8. destruct (IH (abs / 256) neg) as (e & E & D & NE & LEN); [lia|lia|].
      rewrite E. cbn [obind]. eexists; split; [reflexivity|]. split; [|split; [discriminate|]].
      * rewrite sm_dec_cons by exact NE. rewrite D. cbn [fst snd]. f_equal. rewrite b2n_n2b_small by lia. lia.
      * intros j. cbn [length]. destruct j as [|j].
        { split; intros X. - destruct e; [congruence|cbn in X; lia]. - cbn in X. lia. }
        rewrite Nnat.Nat2N.inj_succ, N.pow_succ_r'. specialize (LEN j). remember (256 ^ N.of_nat j) as P. split; intros X.
        -- assert (abs / 256 < 128 * P) by (apply LEN; lia). lia.
        -- assert (length e <= S j)%nat by (apply LEN; lia). lia.
    + destruct (si_tail_spec abs neg H0) as [D LEN]; [lia|].
      exists (si_tail abs neg); split; [unfold si_tail; destruct (negb (N.land abs 128 =? 0)); reflexivity|]. split; [exact D|]. split. { intros X. rewrite X in LEN. destruct (abs <? 128); discriminate. }
      intros j. rewrite LEN. assert (1 <= 256 ^ N.of_nat j) by (apply N.lt_pred_le; cbn; apply N.neq_0_lt_0, N.pow_nonzero; lia).
      destruct (N.ltb_spec abs 128).
      * split; intros; [nia|lia].
      * destruct j as [|j]. { cbn. split; intros; lia. }
        rewrite Nnat.Nat2N.inj_succ, N.pow_succ_r'. assert (1 <= 256 ^ N.of_nat j) by (apply N.lt_pred_le; cbn; apply N.neq_0_lt_0, N.pow_nonzero; lia).
        split; intros; [nia|lia]. Qed.

Ltac i64c := unfold in_i64, i64_min, i64_max, wrap_i64, as_usize in *;
  change (2 ^ 63)%Z with 9223372036854775808%Z in *; change (2 ^ 64)%Z with 18446744073709551616%Z in *.

Lemma build_scriptint_spec p n : in_i64 n = true -> n <> 0%Z -> (p = Release \/ n <> i64_min) ->
  exists e, build_scriptint p n = Val e /\ sm_dec e = ((n <? 0)%Z, Z.to_N (Z.abs n)) /\ e <> [] /\
            forall j, (length e <= S j)%nat <-> Z.to_N (Z.abs n) < 128 * 256 ^ N.of_nat j.
Proof. intros R NZ PM. unfold build_scriptint. destruct (Z.eqb_spec n 0); [contradiction|].
  assert (A : exists a, (if (n <? 0)%Z then neg_i64 p n else Val n) = Val a /\ as_usize a = Z.to_N (Z.abs n)).
  { destruct (Z.ltb_spec n 0).
    - unfold neg_i64. destruct (in_i64 (- n)) eqn:I.
      + eexists; split; [reflexivity|]. i64c. rewrite Z.mod_small by lia. f_equal. lia.
      + assert (n = i64_min) by (i64c; lia). destruct PM as [-> | PM]; [|contradiction]. subst n. eexists; split; [reflexivity|]. reflexivity.
    - eexists; split; [reflexivity|]. i64c. rewrite Z.mod_small by lia. f_equal. lia. }
  destruct A as (a & -> & AU). cbn [obind]. rewrite AU.
  apply si_loop_spec; [lia|]. i64c. change (256 ^ N.of_nat 9) with 4722366482869645213696. lia. Qed.

Lemma build_scriptint_zero p : build_scriptint p 0 = Val [].
Proof. reflexivity. Qed.
Lemma build_scriptint_min_debug : build_scriptint Debug i64_min = Panic PNegOverflow.
Proof. reflexivity. Qed.
Lemma build_scriptint_panic_iff p n : in_i64 n = true -> ((exists w, build_scriptint p n = Panic w) <-> (p = Debug /\ n = i64_min)).
Proof. intros R. split.
  - intros [w H]. destruct (Z.eq_dec n 0) as [->|NZ]; [discriminate|]. destruct p.
    + split; [reflexivity|]. destruct (Z.eq_dec n i64_min) as [->|NM]; [reflexivity|].
      destruct (build_scriptint_spec Debug n R NZ (or_intror NM)) as (e & E & _). congruence.
    + destruct (build_scriptint_spec Release n R NZ (or_introl eq_refl)) as (e & E & _). congruence.
  - intros [-> ->]. eexists. reflexivity. Qed.

(* read_scriptint *)
Lemma read_fold v : forall acc sh, (0 <= sh)%Z ->
  fold_left (fun (st : Z * Z) (n : byte) => let '(acc, sh) := st in ((acc + Z.shiftl (Z.of_N (b2n n)) sh)%Z, (sh + 8)%Z)) v (acc, sh)
  = ((acc + 2 ^ sh * Z.of_N (le_val v))%Z, (sh + 8 * Z.of_nat (length v))%Z).
Proof. induction v as [|b r IH]; intros acc sh H; cbn [fold_left le_val length].
  - f_equal; lia.
  - rewrite IH by lia. rewrite Z.shiftl_mul_pow2 by lia. rewrite Z.pow_add_r by lia. change (2 ^ 8)%Z with 256%Z. f_equal; lia. Qed.

Lemma sign_bit b : negb (N.land (b2n b) 128 =? 0) = (128 <=? b2n b).
Proof. destruct b; reflexivity. Qed.

Definition topw (v : bytes) : N := 128 * 256 ^ N.of_nat (length v - 1).
Lemma sm_dec_le v : v <> [] ->
  fst (sm_dec v) = (128 <=? b2n (last v x00)) /\ le_val v = snd (sm_dec v) + (if fst (sm_dec v) then topw v else 0) /\ snd (sm_dec v) < topw v.
Proof. induction v as [|b r IH]; [congruence|]. intros _. destruct r as [|y r].
  - unfold topw. cbn [sm_dec fst snd last le_val length Nat.sub]. change (128 * 256 ^ N.of_nat 0) with 128. pose proof (b2n_lt b).
    split; [reflexivity|]. destruct (N.leb_spec 128 (b2n b)); lia.
  - destruct IH as (I1 & I2 & I3); [discriminate|]. rewrite sm_dec_cons by discriminate. cbn [fst snd].
    assert (T : topw (b :: y :: r) = 256 * topw (y :: r)).
    { unfold topw. cbn [length Nat.sub]. rewrite Nat.sub_0_r. rewrite Nnat.Nat2N.inj_succ, N.pow_succ_r'. lia. }
    rewrite T. split; [exact I1|]. pose proof (b2n_lt b). split.
    + change (le_val (b :: y :: r)) with (b2n b + 256 * le_val (y :: r)). rewrite I2. destruct (fst (sm_dec (y :: r))); lia.
    + lia. Qed.

Lemma topw_Z v : v <> [] -> (2 ^ (8 * Z.of_nat (length v) - 1))%Z = Z.of_N (topw v).
Proof. destruct v as [|b r]; [congruence|]. intros _. unfold topw. cbn [length Nat.sub]. rewrite Nat.sub_0_r.
  induction (length r) as [|k IH].
  - reflexivity.
  - replace (8 * Z.of_nat (S (S k)) - 1)%Z with ((8 * Z.of_nat (S k) - 1) + 8)%Z by lia. rewrite Z.pow_add_r by lia. rewrite IH.
    rewrite Nnat.Nat2N.inj_succ, N.pow_succ_r'. change (2 ^ 8)%Z with 256%Z. lia. Qed.

Lemma read_scriptint_spec v :
  read_scriptint v = if Nat.ltb 4 (length v) then SErr NumericOverflow else SOk (sm_val v).
Proof. destruct v as [|b r]; [reflexivity|]. unfold read_scriptint. cbn [length]. change (S (length r)) with (length (b :: r)).
  assert (NE : b :: r <> []) by discriminate. remember (b :: r) as v eqn:V. clear V b r.
  destruct (Nat.ltb 4 (length v)); [reflexivity|].
  rewrite read_fold by lia. rewrite Z.pow_0_r, Z.mul_1_l, !Z.add_0_l.
  destruct (sm_dec_le v NE) as (S1 & S2 & S3). rewrite sign_bit, <- S1. unfold sm_val. destruct (sm_dec v) as [s m]. cbn [fst snd] in *.
  destruct s; [|f_equal; lia].
  change (Z.shiftl 1 (8 * Z.of_nat (length v) - 1) - 1)%Z with (Z.ones (8 * Z.of_nat (length v) - 1)).
  assert (0 < length v)%nat by (destruct v; [congruence|cbn; lia]).
  rewrite Z.land_ones by lia. rewrite topw_Z by exact NE. rewrite S2, N2Z.inj_add.
  rewrite <- (Z.mul_1_l (Z.of_N (topw v))) at 1. rewrite Z_mod_plus_full. rewrite Z.mod_small by lia. reflexivity. Qed.

Theorem scriptint_roundtrip p n : (- 2 ^ 31 < n < 2 ^ 31)%Z -> exists e, build_scriptint p n = Val e /\ read_scriptint e = SOk n.
Proof. intros R. destruct (Z.eq_dec n 0) as [->|NZ]. { exists []. split; reflexivity. }
  change (2 ^ 31)%Z with 2147483648%Z in R.
  destruct (build_scriptint_spec p n) as (e & E & D & NE & LEN); [i64c; lia|exact NZ|right; i64c; lia|].
  exists e. split; [exact E|]. rewrite read_scriptint_spec.
  assert (length e <= 4)%nat by (apply (LEN 3%nat); change (128 * 256 ^ N.of_nat 3) with 2147483648; lia).
  destruct (Nat.ltb_spec 4 (length e)); [lia|]. f_equal. unfold sm_val. rewrite D. destruct (Z.ltb_spec n 0); lia. Qed.

Theorem scriptint_overflow p n : in_i64 n = true -> (2 ^ 31 <= Z.abs n)%Z -> (p = Release \/ n <> i64_min) ->
  exists e, build_scriptint p n = Val e /\ read_scriptint e = SErr NumericOverflow.
Proof. intros R B PM. change (2 ^ 31)%Z with 2147483648%Z in B.
  destruct (build_scriptint_spec p n R) as (e & E & D & NE & LEN); [lia|exact PM|].
  exists e. split; [exact E|]. rewrite read_scriptint_spec.
  destruct (Nat.ltb_spec 4 (length e)); [reflexivity|]. exfalso.
  assert (Z.to_N (Z.abs n) < 128 * 256 ^ N.of_nat 3) by (apply LEN; lia). change (128 * 256 ^ N.of_nat 3) with 2147483648 in *. lia. Qed.

(* ------------------------------------------------------------------ instructions_minimal on built scripts *)
Definition special_small (n : Z) : bool := ((n =? -1) || ((1 <=? n) && (n <=? 16)))%Z.

Lemma scriptint_bad_iff p n : in_i64 n = true -> (bad_single (scriptint_bytes p n) = true <-> special_small n = true).
Proof. intros R. split.
  - intros B. unfold scriptint_bytes in B. destruct (Z.eq_dec n 0) as [->|NZ]; [discriminate B|].
    destruct (build_scriptint p n) as [e|w] eqn:E; [|discriminate B].
    assert (PM : p = Release \/ n <> i64_min).
    { destruct p; [|left; reflexivity]. right. intros ->. rewrite build_scriptint_min_debug in E. discriminate. }
    destruct (build_scriptint_spec p n R NZ PM) as (e' & E' & D & _). rewrite E in E'. inversion E'; subst e'.
    destruct e as [|x [|y r]]; try discriminate B. cbn [sm_dec] in D. inversion D as [[D1 D2]]. cbn [bad_single] in B.
    pose proof (b2n_lt x). unfold special_small. destruct (Z.ltb_spec n 0), (N.leb_spec 128 (b2n x)); try discriminate D1; lia.
  - unfold special_small. intros S.
    assert (C : (n = -1 \/ n = 1 \/ n = 2 \/ n = 3 \/ n = 4 \/ n = 5 \/ n = 6 \/ n = 7 \/ n = 8 \/ n = 9 \/ n = 10 \/ n = 11 \/ n = 12
              \/ n = 13 \/ n = 14 \/ n = 15 \/ n = 16)%Z) by lia.
    repeat (destruct C as [-> | C]); try subst n; reflexivity. Qed.

Definition bad_op (op : bop) : bool :=
  match op with BSlice d => bad_single d | BScriptInt n => special_small n | _ => false end.
Lemma pushed_bad_iff p op : op_ok op = true -> ((exists d, pushed p op = Some d /\ bad_single d = true) <-> bad_op op = true).
Proof. intros OK. destruct op as [n|n|d|c|]; cbn [pushed bad_op op_ok] in *.
  - split; [|discriminate]. intros (d & P & B). exfalso. unfold int_item in P. fold (special_small n) in *.
    destruct (n =? -1)%Z eqn:E1; [discriminate|]. destruct ((1 <=? n) && (n <=? 16))%Z eqn:E2; [discriminate|].
    destruct (n =? 0)%Z; inversion P; subst d; [discriminate B|].
    apply (scriptint_bad_iff p n OK) in B. unfold special_small in B. rewrite E1, E2 in B. discriminate.
  - rewrite <- (scriptint_bad_iff p n OK). split; [intros (d & P & B); inversion P; subst; exact B|intros B; eexists; split; [reflexivity|exact B]].
  - split; [intros (d' & P & B); inversion P; subst; exact B|intros B; eexists; split; [reflexivity|exact B]].
  - split; [|discriminate]. intros (d & P & B). rewrite item_of_opcode_spec in P. destruct (b2n c =? 0); inversion P; subst. discriminate B.
  - split; [intros (d & P & _); discriminate|discriminate]. Qed.

Lemma Built_items s its : Built s its -> forall i, In i its -> is_err i = false.
Proof. induction 1; intros i Hi; [contradiction| |]; destruct Hi as [<-|Hi]; auto. Qed.

Lemma cut_ok its : (forall i, In i its -> is_err i = false) ->
  ((forall i, In i (cut_nonminimal its) -> is_err i = false) <-> (forall d, In (IPush d) its -> bad_single d = false))
  /\ ((forall d, In (IPush d) its -> bad_single d = false) -> cut_nonminimal its = its).
Proof. induction its as [|i r IH]; intros NE.
  - split; [split; intros; contradiction|reflexivity].
  - destruct IH as [IH1 IH2]; [intros; apply NE; right; assumption|].
    assert (Ei : is_err i = false) by (apply NE; left; reflexivity).
    destruct i as [d| | | |]; try discriminate Ei; cbn [cut_nonminimal].
    + destruct (bad_single d) eqn:B.
      * split; [split|].
        -- intros H. specialize (H (IErr NonMinimalPush) (or_introl eq_refl)). discriminate H.
        -- intros H. specialize (H d (or_introl eq_refl)). congruence.
        -- intros H. specialize (H d (or_introl eq_refl)). congruence.
      * split; [split|].
        -- intros H d' [E|Hd]; [inversion E; subst; exact B|]. apply IH1; [|exact Hd]. intros; apply H; right; assumption.
        -- intros H j [<-|Hj]; [reflexivity|]. apply IH1 in Hj; [exact Hj|]. intros; apply H; right; assumption.
        -- intros H. f_equal. apply IH2. intros; apply H; right; assumption.
    + split; [split|].
      * intros H d' [E|Hd]; [discriminate E|]. apply IH1; [|exact Hd]. intros; apply H; right; assumption.
      * intros H j [<-|Hj]; [reflexivity|]. apply IH1 in Hj; [exact Hj|]. intros; apply H; right; assumption.
      * intros H. f_equal. apply IH2. intros; apply H; right; assumption. Qed.

Lemma expected_step_pushes p racc op d :
  In (IPush d) (expected_step p racc op) <-> In (IPush d) racc \/ pushed p op = Some d.
Proof. destruct op as [n|n|d'|c|]; cbn [expected_step pushed].
  - destruct (int_item p n); cbn [In]; split; intros H; try (destruct H as [H|H]; [discriminate H|auto]);
      try (destruct H as [H|H]; [right; assumption|discriminate H]).
    + destruct H as [H|H]; [inversion H; subst; right; reflexivity|left; assumption].
    + destruct H as [H|H]; [right; assumption|inversion H; subst; left; reflexivity].
  - cbn [In]. split; intros [H|H]; [inversion H; subst; auto|auto|auto|inversion H; subst; auto].
  - cbn [In]. split; intros [H|H]; [inversion H; subst; auto|auto|auto|inversion H; subst; auto].
  - destruct (item_of_opcode c); cbn [In]; split; intros H; try (destruct H as [H|H]; [discriminate H|auto]);
      try (destruct H as [H|H]; [right; assumption|discriminate H]).
    + destruct H as [H|H]; [inversion H; subst; right; reflexivity|left; assumption].
    + destruct H as [H|H]; [right; assumption|inversion H; subst; left; reflexivity].
  - destruct racc as [|[d0|c0|e0|w0|] racc']; cbn [In]; try (split; [intros [H|H]; [discriminate H|auto]|intros [H|H]; [auto|discriminate H]]).
    destruct (fold_item c0); cbn [In]; split; intros H.
    + destruct H as [H|H]; [discriminate H|auto].
    + destruct H as [[H|H]|H]; [discriminate H|auto|discriminate H].
    + destruct H as [H|[H|H]]; [discriminate H|discriminate H|auto].
    + destruct H as [[H|H]|H]; [discriminate H|auto|discriminate H]. Qed.

Lemma expected_pushes p d : forall ops racc,
  In (IPush d) (fold_left (expected_step p) ops racc) <-> In (IPush d) racc \/ exists op, In op ops /\ pushed p op = Some d.
Proof. induction ops as [|op ops IH]; intros racc; cbn [fold_left].
  - split; [auto|intros [H|(op & [] & _)]; exact H].
  - rewrite IH, expected_step_pushes. split.
    + intros [[H|H]|(op' & I & P)]; [auto|right; exists op; split; [left; reflexivity|exact H]|right; exists op'; split; [right; exact I|exact P]].
    + intros [H|(op' & [<-|I] & P)]; [auto|auto|right; exists op'; auto]. Qed.

Theorem minimal_iter p ops s : forallb op_ok ops = true -> build p ops = Val s ->
  instructions true s = cut_nonminimal (expected p ops) /\
  ((forall i, In i (instructions true s) -> is_err i = false) <-> (forall op, In op ops -> bad_op op = false)) /\
  ((forall op, In op ops -> bad_op op = false) -> instructions true s = instructions false s).
Proof. intros OK H. pose proof (build_Built p ops s OK H) as B. pose proof (Built_items _ _ B) as NE.
  rewrite (readback_minimal p ops s OK H), (readback p ops s OK H). destruct (cut_ok _ NE) as [C1 C2].
  assert (X : (forall d, In (IPush d) (expected p ops) -> bad_single d = false) <-> (forall op, In op ops -> bad_op op = false)).
  { unfold expected. split.
    - intros A op I. destruct (bad_op op) eqn:Bd; [|reflexivity]. rewrite forallb_forall in OK.
      apply (pushed_bad_iff p op (OK op I)) in Bd as (d & P & Bs). rewrite <- Bs. apply A. rewrite <- in_rev. apply expected_pushes. right. exists op; auto.
    - intros A d I. rewrite <- in_rev in I. apply expected_pushes in I as [[]|(op & I & P)]. destruct (bad_single d) eqn:Bs; [|reflexivity].
      rewrite forallb_forall in OK. rewrite <- (A op I). symmetry. apply (pushed_bad_iff p op (OK op I)). exists d; auto. }
  split; [reflexivity|]. split; [rewrite C1; exact X|]. intros A. apply C2. apply X. exact A. Qed.

(* ------------------------------------------------------------------ the builder picks the shortest header *)
Lemma valid_header_length h n : valid_header h n ->
  (length h = 1%nat /\ n <= 75) \/ (length h = 2%nat /\ n < 256) \/ (length h = 3%nat /\ n < 65536) \/ (length h = 5%nat /\ n < 4294967296).
Proof. intros [[-> H]|[[-> H]|[[-> H]|[-> H]]]]; cbn [length]; rewrite ?le_enc_length; auto 10. Qed.
Theorem push_header_shortest n h : push_header n = Val h ->
  valid_header h n /\ forall h', valid_header h' n -> (length h <= length h')%nat.
Proof. intros E. destruct (push_header_valid n h E) as [V M]. split; [exact V|]. intros h' V'.
  apply valid_header_length in V'. destruct V as [[-> H]|[[-> H]|[[-> H]|[-> H]]]]; cbn [hdr_minimal le_enc length] in *; lia. Qed.
Lemma push_header_panic_iff n : (exists w, push_header n = Panic w) <-> 0x100000000 <= n.
Proof. unfold push_header, OP_PUSHDATA1. destruct (N.ltb_spec n 76), (N.ltb_spec n 256), (N.ltb_spec n 65536), (N.ltb_spec n 4294967296);
  split; intros X; try lia; try (destruct X as [w X]; discriminate X); eexists; reflexivity. Qed.


(* ------------------------------------------------------------------ which builder programs panic *)
Lemma push_slice_panic_iff b d : (exists w, push_slice b d = Panic w) <-> 0x100000000 <= lenN d.
Proof. unfold push_slice. rewrite <- push_header_panic_iff. destruct (push_header (lenN d)); cbn [obind]; split; intros [w H]; try discriminate H; eauto. Qed.
Lemma scriptint_short p n e : in_i64 n = true -> build_scriptint p n = Val e -> lenN e < 0x100000000.
Proof. intros R E. destruct (Z.eq_dec n 0) as [->|NZ]. { inversion E; subst. reflexivity. }
  assert (PM : p = Release \/ n <> i64_min).
  { destruct p; [|left; reflexivity]. right. intros ->. rewrite build_scriptint_min_debug in E. discriminate. }
  destruct (build_scriptint_spec p n R NZ PM) as (e' & E' & _ & _ & LEN). rewrite E in E'. inversion E'; subst e'.
  assert (length e <= 9)%nat. { apply (LEN 8%nat). change (128 * 256 ^ N.of_nat 8) with 2361183241434822606848. i64c. lia. }
  unfold lenN. lia. Qed.
Lemma push_scriptint_panic_iff p b n : in_i64 n = true -> ((exists w, push_scriptint p b n = Panic w) <-> p = Debug /\ n = i64_min).
Proof. intros R. rewrite <- (build_scriptint_panic_iff p n R). unfold push_scriptint. destruct (build_scriptint p n) as [e|w] eqn:E; cbn [obind].
  - split; [|intros [w H]; discriminate H]. intros H. apply push_slice_panic_iff in H. pose proof (scriptint_short p n e R E). lia.
  - split; intros _; eauto. Qed.
Lemma step_panic_iff p b op : op_ok op = true -> ((exists w, step p b op = Panic w) <-> op_panics p op).
Proof. intros OK. destruct op as [n|n|d|c|]; cbn [step op_panics op_ok] in *.
  - unfold push_int. destruct ((n =? -1) || (1 <=? n) && (n <=? 16))%Z eqn:S; [|destruct (n =? 0)%Z eqn:Z].
    + split; [intros [w H]; discriminate H|]. intros [_ ->]. discriminate S.
    + split; [intros [w H]; discriminate H|]. intros [_ ->]. discriminate Z.
    + now apply push_scriptint_panic_iff.
  - now apply push_scriptint_panic_iff.
  - apply push_slice_panic_iff.
  - split; [intros [w H]; discriminate H|contradiction].
  - split; [intros [w H]; discriminate H|contradiction]. Qed.
Lemma run_panic_iff p : forall ops b, forallb op_ok ops = true ->
  ((exists w, run p ops b = Panic w) <-> exists op, In op ops /\ op_panics p op).
Proof. induction ops as [|op ops IH]; intros b OK; cbn [run].
  - split; [intros [w H]; discriminate H|intros (op & [] & _)].
  - cbn [forallb] in OK. apply andb_true_iff in OK as [O1 O2]. destruct (step p b op) as [b1|w] eqn:S; cbn [obind].
    + rewrite (IH b1 O2). split; intros (op' & I & P).
      * exists op'. split; [right; exact I|exact P].
      * destruct I as [<-|I]; [|exists op'; auto]. exfalso. apply (step_panic_iff p b op O1) in P as [w P]. congruence.
    + split; [intros _|intros _; eauto]. exists op. split; [left; reflexivity|]. apply (step_panic_iff p b op O1). eauto. Qed.
Theorem build_panic_iff p ops : forallb op_ok ops = true -> ((exists w, build p ops = Panic w) <-> exists op, In op ops /\ op_panics p op).
Proof. intros OK. rewrite <- (run_panic_iff p ops b_new OK). unfold build. destruct (run p ops b_new); cbn [obind]; split; intros [w H]; try discriminate H; eauto. Qed.

(* what `expected` shows for an integer: the dedicated opcode, or a push that read_scriptint reads back *)
Theorem int_item_reads_back p n : (- 2 ^ 31 < n < 2 ^ 31)%Z ->
  match int_item p n with
  | IPush e => read_scriptint e = SOk n /\ special_small n = false
  | IOp c => (n = -1 /\ c = x4f)%Z \/ ((1 <= n <= 16)%Z /\ b2n c = Z.to_N (0x50 + n))
  | _ => False end.
Proof. intros R. unfold int_item, special_small. destruct (Z.eqb_spec n (-1)) as [->|N1]; [left; split; reflexivity|].
  destruct ((1 <=? n) && (n <=? 16))%Z eqn:S.
  - right. split; [lia|]. apply b2n_n2b_small. lia.
  - destruct (Z.eqb_spec n 0) as [->|NZ]; [split; reflexivity|]. cbn [orb]. split; [|reflexivity].
    destruct (scriptint_roundtrip p n R) as (e & E & Rd). unfold scriptint_bytes. rewrite E. exact Rd. Qed.
