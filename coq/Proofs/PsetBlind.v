(* Proofs for C09: multi-party PSET blinding (Model/PsetBlind.v) balances for every split and order. *)
From Coq Require Import List NArith ZArith Bool Lia Setoid Morphisms Permutation.
From Coq.Strings Require Import Byte.
From EV Require Import Base.Bytes Base.Zn Base.FreeMod Gen.Tables Model.Script Model.Ideal Model.Verify Model.Blind Model.PsetBlind
  Proofs.ScriptTemplates Proofs.Ideal Proofs.Verify Proofs.Blind.
Import ListNotations.
Open Scope Z_scope.

(* ================================================================== with_txout_secrets over an arbitrary surjection domain *)
Definition tgens (tg : list sdom) : list gel := map (fun e => fst (fst e)) tg.
(* targets built by surjection_target: a known entry's generator is the blinded generator of its tag *)
Definition tg_ok (tg : list sdom) : Prop := forall i g t bf, nth_error tg i = Some (g, Some t, bf) -> g = asset_gen t bf.
Definition holds_tg (tg : list sdom) (a : N) : Prop := exists g bf, In (g, Some a, bf) tg.

Lemma surjection_targets_ok : forall l k tg, surjection_targets l k = OVal tg -> tg_ok tg.
Proof.
  induction l as [|s l IH]; intros k tg; cbn [surjection_targets].
  - intros [= <-] [|i] ? ? ? H; discriminate H.
  - destruct (surjection_target s) as [t| |] eqn:T; cbn [map_err obind]; try discriminate.
    destruct (surjection_targets l (S k)) as [ts| |] eqn:R; cbn [obind]; try discriminate. intros [= <-].
    intros [|i] g tag bf NE; cbn [nth_error] in NE.
    + injection NE as ->. destruct s as [[|a|g0]|a b]; cbn in T; try discriminate; injection T as <- ? ?; try discriminate; subst; reflexivity.
    + exact (IH _ _ R i g tag bf NE).
Qed.

Section Keys.
  Variable pubk : Z -> Z.
  Variable ecdh : Z -> Z -> Z.

  Definition wts_out_g spk rk esk (s : secrets) (gens : list gel) (i : nat) (bf : Z) : txout :=
    mkOut (AConf (sgen s)) (VConf (scommit s)) (NConf (pubk esk)) spk
      (Some (mkRP (scommit s) spk (sgen s) (s_value s) (s_vbf s) (s_asset s, s_abf s) (ecdh rk esk) true))
      (Some (mkSP (sgen s) gens i (zsub (s_abf s) bf) true)).

  Lemma wts_ok_g spk rk esk s spent tg : surjection_targets spent 0 = OVal tg ->
    (N.of_nat (length tg) <= CT_SURJECTIONPROOF_MAX_N_INPUTS)%N -> holds_tg tg (s_asset s) ->
    1 <= s_value s <= I64_MAX ->
    exists i bf, find_tag (s_asset s) tg 0 = Some (i, bf)
      /\ with_txout_secrets pubk ecdh spk rk esk s spent = OVal (wts_out_g spk rk esk s (tgens tg) i bf).
  Proof.
    intros ST SM H V. unfold I64_MAX in V. destruct (find_tag_some (s_asset s) tg H 0%nat) as (i & bf & F).
    exists i, bf. split; [exact F|].
    unfold with_txout_secrets, asset_blind. rewrite ST. cbn [obind]. rewrite (dom_guard_ok _ SM). unfold sp_new. rewrite F. cbn [obind].
    unfold value_blind, value_blind_with_shared_secret. cbn [fst snd].
    rewrite min_guard by lia. rewrite pedersen_new_ok by (pose proof qn_big; lia). cbn [obind].
    rewrite rp_new_some by (unfold I64_MAX; lia). cbn [obind]. reflexivity.
  Qed.
  Lemma asset_blind_ok asset abf spent tg : surjection_targets spent 0 = OVal tg ->
    (N.of_nat (length tg) <= CT_SURJECTIONPROOF_MAX_N_INPUTS)%N -> holds_tg tg asset ->
    exists i bf, find_tag asset tg 0 = Some (i, bf)
      /\ asset_blind (AExp asset) abf spent = OVal (AConf (asset_gen asset abf), mkSP (asset_gen asset abf) (tgens tg) i (zsub abf bf) true).
  Proof.
    intros ST SM H. destruct (find_tag_some asset tg H 0%nat) as (i & bf & F). exists i, bf. split; [exact F|].
    unfold asset_blind. rewrite ST. cbn [obind]. rewrite (dom_guard_ok _ SM). unfold sp_new. rewrite F. reflexivity.
  Qed.

  (* more targets than Asset::blind accepts: refused after the targets are collected *)
  Lemma wts_over_limit_g spk rk esk s spent tg : surjection_targets spent 0 = OVal tg ->
    (CT_SURJECTIONPROOF_MAX_N_INPUTS < N.of_nat (length tg))%N ->
    with_txout_secrets pubk ecdh spk rk esk s spent = OFail BCannotProveSurjection.
  Proof. intros ST L. unfold with_txout_secrets, asset_blind. rewrite ST. cbn [obind]. rewrite (dom_guard_over _ L). reflexivity. Qed.

  (* the blinded output passes the per-output checks in every domain equal to the target generators *)
  Lemma verify_output_wts_g domain k spk rk esk s tg i bf :
    tg_ok tg -> Forall2 geq domain (tgens tg) -> find_tag (s_asset s) tg 0 = Some (i, bf) -> 1 <= s_value s <= I64_MAX ->
    verify_output domain k (wts_out_g spk rk esk s (tgens tg) i bf) = OVal (scommit s).
  Proof.
    intros TO D F V. unfold verify_output, wts_out_g, get_value_commit, get_asset_gen.
    cbn [o_value o_asset o_rp o_sp o_script map_err obind].
    rewrite (rp_new_verify (scommit s) (s_value s) (s_vbf s) (s_asset s, s_abf s) spk (ecdh rk esk) (sgen s));
      [|apply rp_new_some; exact V|reflexivity]. cbn [obind].
    assert (SV : sp_verify (mkSP (sgen s) (tgens tg) i (zsub (s_abf s) bf) true) (sgen s) domain = true); [|rewrite SV; reflexivity].
    apply (sp_verify_new (s_asset s) (s_abf s) tg).
    - unfold sp_new. rewrite F. reflexivity.
    - exact D.
    - intros i' bf' F'. destruct (find_tag_spec _ _ _ _ _ F') as (g & NE & _). rewrite Nat.sub_0_r in NE.
      exists g. split; [exact NE|]. rewrite (TO _ _ _ _ NE). reflexivity.
  Qed.
  Hypothesis ecdh_sym : forall a b, ecdh (pubk a) b = ecdh (pubk b) a.
  Lemma unblind_wts_g spk rsk esk s gens i bf : in_zn (s_abf s) -> 1 <= s_value s <= I64_MAX ->
    unblind ecdh (wts_out_g spk (pubk rsk) esk s gens i bf) rsk = OVal s.
  Proof.
    intros Zabf V. unfold unblind, wts_out_g. cbn [o_value o_asset o_nonce o_rp o_script].
    rewrite (rp_rewind_new (scommit s) (s_value s) (s_vbf s) (s_asset s, s_abf s) spk (ecdh (pubk esk) rsk) (sgen s)
               (mkRP (scommit s) spk (sgen s) (s_value s) (s_vbf s) (s_asset s, s_abf s) (ecdh (pubk rsk) esk) true)).
    - apply in_znb_spec in Zabf. rewrite Zabf. cbn [negb]. fold (sgen s). rewrite geqb_refl. cbn [negb]. now rewrite secrets_eta.
    - rewrite ecdh_sym. now apply rp_new_some.
    - reflexivity.
  Qed.
End Keys.

(* ================================================================== one party's step *)
Definition same_static (o o' : pout) : Prop :=
  po_asset o' = po_asset o /\ po_amount o' = po_amount o /\ po_script o' = po_script o
  /\ po_blinding_key o' = po_blinding_key o /\ po_blinder_index o' = po_blinder_index o.
Lemma same_static_refl o : same_static o o. Proof. repeat split. Qed.
Lemma same_static_trans a b c : same_static a b -> same_static b c -> same_static a c.
Proof. unfold same_static. intros (A1 & A2 & A3 & A4 & A5) (B1 & B2 & B3 & B4 & B5). repeat split; congruence. Qed.
(* the secrets a blinded output carries (read off its ideal range proof) *)
Definition osec_of (o : pout) : secrets :=
  match po_rp o with
  | Some rp => mkSec (fst (rp_msg rp)) (snd (rp_msg rp)) (rp_value rp) (rp_vbf rp)
  | None => mkSec 0 0 0 0 end.
(* this party blinds the output: blinding key, blinder index among the party's inputs *)
Definition owned_by (sec : list (nat * secrets)) (o : pout) : bool :=
  match po_blinding_key o, po_blinder_index o with
  | Some _, Some b => match lookup sec b with Some _ => true | None => false end
  | _, _ => false end.
Fixpoint owned_idx (sec : list (nat * secrets)) (outs : list pout) (k : nat) : list nat :=
  match outs with
  | [] => []
  | o :: r => if owned_by sec o then k :: owned_idx sec r (S k) else owned_idx sec r (S k)
  end.

Section Step.
  Variable pubk : Z -> Z.
  Variable ecdh : Z -> Z -> Z.
  Variable p : profile.
  Variable tg : list sdom.            (* this party's surjection targets *)
  (* ... no more of them than Asset::blind accepts (a premise of the lemmas below in which an output is blinded) *)
  Hypothesis tg_small : within_limit (length tg).

  (* an explicit, not yet blinded output this party can blind *)
  Definition pgood (o : pout) : Prop :=
    exists a v rk, po_asset o = Some a /\ po_amount o = Some v /\ po_blinding_key o = Some rk /\ 1 <= v <= I64_MAX
      /\ (exists ad, from_script (po_script o) = Script.Val (Some ad)) /\ holds_tg tg a
      /\ po_asset_comm o = None /\ po_amount_comm o = None.
  Definition blinded_as (o : pout) (s : secrets) (esk : Z) (j : nat) (bf : Z) : pout :=
    match po_blinding_key o with
    | Some rk => set_blinded o (wts_out_g pubk ecdh (po_script o) rk esk s (tgens tg) j bf)
                   (blind_value_proof (s_value s) (scommit s) (sgen s) (s_vbf s)) (blind_asset_proof (s_asset s) (s_abf s))
    | None => o end.
  Definition blinded_form (o o' : pout) : Prop :=
    exists s esk j bf, po_asset o = Some (s_asset s) /\ po_amount o = Some (s_value s) /\ in_zn (s_abf s)
      /\ 1 <= s_value s <= I64_MAX /\ find_tag (s_asset s) tg 0 = Some (j, bf) /\ po_blinding_key o <> None
      /\ o' = blinded_as o s esk j bf.

  Lemma blinded_as_static o s esk j bf : same_static o (blinded_as o s esk j bf).
  Proof. unfold blinded_as. destruct (po_blinding_key o); [|apply same_static_refl]. repeat split. Qed.
  Lemma blinded_form_osec o o' : blinded_form o o' -> exists s, osec_of o' = s /\ po_asset o = Some (s_asset s) /\ po_amount o = Some (s_value s).
  Proof.
    intros (s & esk & j & bf & A & V & _ & _ & _ & K & ->). exists s. split; [|auto].
    unfold blinded_as. destruct (po_blinding_key o); [|congruence]. unfold osec_of, set_blinded, wts_out_g. cbn. apply secrets_eta.
  Qed.

  Lemma blind_one_ok sis outs i o abf vbf esk rnd' :
    surjection_targets sis 0 = OVal tg -> nth_error outs i = Some o -> pgood o -> in_zn abf ->
    exists a v j bf, po_asset o = Some a /\ po_amount o = Some v /\ find_tag a tg 0 = Some (j, bf) /\
      blind_one pubk ecdh p sis outs (abf :: vbf :: esk :: rnd') i =
        OVal (set_nth outs i (blinded_as o (mkSec a abf v vbf) esk j bf), (v, abf, vbf), (abf, vbf, esk), rnd').
  Proof.
    intros ST NE (a & v & rk & A & V & K & R & (ad & AD) & H & AC & VC) Zabf.
    destruct (wts_ok_g pubk ecdh (po_script o) rk esk (mkSec a abf v vbf) sis tg ST tg_small H R) as (j & bf & F & W). cbn [s_asset] in F.
    exists a, v, j, bf. split; [exact A|]. split; [exact V|]. split; [exact F|].
    unfold blind_one. rewrite NE, K. cbn [opt_err obind].
    unfold to_non_last_confidential, to_txout. rewrite AC, VC, A, V. cbn [o_value o_asset o_script].
    rewrite (address_spk_ok p _ ad AD). cbn [obind]. unfold new_not_last_confidential. cbn [draw obind]. rewrite W. cbn [lift_blind map_err obind opt_err].
    unfold blinded_as. rewrite K. unfold blind_asset_proof, blind_value_proof, sp_new. cbn [find_tag s_asset s_abf s_value s_vbf].
    rewrite N.eqb_refl. cbn [opt_err obind wts_out_g o_asset o_value]. reflexivity.
  Qed.

  Definition Osum (outs : list pout) (l : list nat) : Z :=
    zsum (map (fun i => match nth_error outs i with Some o => svb (osec_of o) | None => 0 end) l).

  Lemma blind_each_ok sis : surjection_targets sis 0 = OVal tg -> forall idx outs rnd, NoDup idx ->
    (forall i, In i idx -> exists o, nth_error outs i = Some o /\ pgood o) ->
    (3 * length idx <= length rnd)%nat -> Forall in_zn rnd ->
    exists outs' osecs reps rnd',
      blind_each pubk ecdh p sis outs rnd idx = OVal (outs', osecs, reps, rnd')
      /\ length outs' = length outs /\ (forall j, ~ In j idx -> nth_error outs' j = nth_error outs j)
      /\ (forall i, In i idx -> exists o o', nth_error outs i = Some o /\ nth_error outs' i = Some o' /\ blinded_form o o')
      /\ zsum (map vb osecs) = Osum outs' idx /\ length osecs = length idx
      /\ Forall2 (fun i r => fst r = i /\ exists o', nth_error outs' i = Some o' /\ fst (fst (snd r)) = s_abf (osec_of o') /\ snd (fst (snd r)) = s_vbf (osec_of o')) idx reps
      /\ (length rnd' + 3 * length idx = length rnd)%nat /\ Forall in_zn rnd'.
  Proof.
    intro ST. induction idx as [|i idx IH]; intros outs rnd ND G RL RZ.
    - exists outs, [], [], rnd. cbn [blind_each length]. repeat split; try constructor; try assumption; try lia. intros ? [].
    - inversion ND as [|? ? NI ND']; subst. cbn [length] in RL.
      destruct rnd as [|abf [|vbf [|esk rnd']]]; cbn [length] in RL; try lia.
      inversion RZ as [|? ? Z1 RZ1]; subst. inversion RZ1 as [|? ? Z2 RZ2]; subst. inversion RZ2 as [|? ? Z3 RZ3]; subst.
      destruct (G i (or_introl eq_refl)) as (o & NE & PG).
      destruct (blind_one_ok sis outs i o abf vbf esk rnd' ST NE PG Z1) as (a & v & j & bf & A & V & F & B1).
      set (o1 := blinded_as o (mkSec a abf v vbf) esk j bf) in *. set (outs1 := set_nth outs i o1) in *.
      assert (N1 : forall k, k <> i -> nth_error outs1 k = nth_error outs k).
      { intros k NK. unfold outs1. clear -NK. revert i k NK. induction outs as [|x l IHl]; intros [|i] [|k] NK; cbn; auto; try congruence. }
      assert (E1 : nth_error outs1 i = Some o1).
      { unfold outs1. clear -NE. revert i NE. induction outs as [|x l IHl]; intros [|i] NE; cbn in *; try discriminate; auto. }
      assert (L1 : length outs1 = length outs).
      { unfold outs1. clear. revert i. induction outs as [|x l IHl]; intros [|i]; cbn; auto. }
      destruct (IH outs1 rnd' ND') as (outs' & osecs & reps & rnd'' & B2 & L2 & U2 & F2 & S2 & LO & R2 & LR & RZ'); try assumption; try lia.
      { intros k I. destruct (G k (or_intror I)) as (ok & NEk & PGk). exists ok. split; [|exact PGk]. rewrite N1; [exact NEk|]. intros ->. contradiction. }
      assert (Ei : nth_error outs' i = Some o1) by (rewrite (U2 i NI); exact E1).
      assert (PGd : let '(a0, v0, rk0) := (a, v, 0) in True) by exact I.
      destruct PG as (a0 & v0 & rk & A0 & V0 & K & R & AD & H & AC & VC). rewrite A in A0. rewrite V in V0. injection A0 as <-. injection V0 as <-.
      assert (OS : osec_of o1 = mkSec a abf v vbf).
      { unfold o1, blinded_as. rewrite K. reflexivity. }
      exists outs', ((v, abf, vbf) :: osecs), ((i, (abf, vbf, esk)) :: reps), rnd''.
      cbn [blind_each]. rewrite B1. cbn [obind]. fold outs1. rewrite B2. cbn [obind].
      split; [reflexivity|]. split; [congruence|]. split; [|split; [|split; [|split; [|split; [|split]]]]].
      + intros k NK. rewrite U2 by (intro; apply NK; now right). apply N1. intro. apply NK. now left.
      + intros k [<-|I].
        * exists o, o1. split; [exact NE|]. split; [exact Ei|]. exists (mkSec a abf v vbf), esk, j, bf. cbn [s_asset s_value s_abf].
          split; [exact A|]. split; [exact V|]. split; [exact Z1|]. split; [exact R|]. split; [exact F|]. split; [rewrite K; discriminate|reflexivity].
        * destruct (F2 k I) as (ok & ok' & NEk & NEk' & BF). exists ok, ok'. split; [|split; assumption].
          rewrite <- NEk. symmetry. apply N1. intros ->. contradiction.
      + cbn [map zsum fold_right]. fold (zsum (map vb osecs)). rewrite S2. unfold Osum. cbn [map zsum fold_right]. rewrite Ei, OS. reflexivity.
      + cbn [length]. congruence.
      + constructor; [|exact R2]. cbn [fst snd]. split; [reflexivity|]. exists o1. rewrite OS. repeat split. exact Ei.
      + cbn [length]. lia.
      + exact RZ'.
  Qed.
End Step.

(* ================================================================== blind_checks *)
Lemma owned_idx_ge sec : forall outs k i, In i (owned_idx sec outs k) -> (k <= i)%nat.
Proof. induction outs as [|o r IH]; intros k i I; cbn [owned_idx] in I; [destruct I|]. destruct (owned_by sec o); [destruct I as [<-|I]; [lia|]|]; apply IH in I; lia. Qed.
Lemma owned_idx_nodup sec : forall outs k, NoDup (owned_idx sec outs k).
Proof.
  induction outs as [|o r IH]; intro k; cbn [owned_idx]; [constructor|]. destruct (owned_by sec o); [|apply IH].
  constructor; [|apply IH]. intro I. apply owned_idx_ge in I. lia.
Qed.
Lemma owned_idx_spec sec : forall outs k i, In i (owned_idx sec outs k) <->
  (k <= i)%nat /\ exists o, nth_error outs (i - k) = Some o /\ owned_by sec o = true.
Proof.
  induction outs as [|o r IH]; intros k i; cbn [owned_idx].
  - split; [intros []|]. intros (_ & o & NE & _). destruct (i - k)%nat; discriminate.
  - destruct (owned_by sec o) eqn:OB.
    + split.
      * intros [<-|I]. { split; [lia|]. exists o. rewrite Nat.sub_diag. auto. }
        apply IH in I as (L & o' & NE & OB'). split; [lia|]. exists o'. replace (i - k)%nat with (S (i - S k)) by lia. auto.
      * intros (L & o' & NE & OB'). destruct (Nat.eq_dec i k) as [->|NK]; [now left|right]. apply IH. split; [lia|].
        exists o'. replace (i - k)%nat with (S (i - S k)) in NE by lia. auto.
    + split.
      * intro I. apply IH in I as (L & o' & NE & OB'). split; [lia|]. exists o'. replace (i - k)%nat with (S (i - S k)) by lia. auto.
      * intros (L & o' & NE & OB'). apply IH. destruct (Nat.eq_dec i k) as [->|NK].
        { rewrite Nat.sub_diag in NE. injection NE as <-. congruence. }
        split; [lia|]. exists o'. replace (i - k)%nat with (S (i - S k)) in NE by lia. auto.
Qed.
(* every blinder index is an input index *)
Definition indices_ok (n : nat) (outs : list pout) : Prop :=
  Forall (fun o => forall b, po_blinding_key o <> None -> po_blinder_index o = Some b -> (b < n)%nat) outs.
Lemma outs_to_blind_eq n sec : forall outs k, indices_ok n outs -> outs_to_blind n sec outs k = OVal (owned_idx sec outs k).
Proof.
  induction outs as [|o r IH]; intros k IO; cbn [outs_to_blind owned_idx]; [reflexivity|]. inversion IO as [|? ? Io Ir]; subst.
  unfold owned_by. destruct (po_blinding_key o) as [bk|] eqn:K; [|now apply IH].
  destruct (po_blinder_index o) as [b|] eqn:B; [|now apply IH].
  assert (L : (b < n)%nat) by (apply Io; [discriminate|reflexivity]).
  destruct (Nat.leb_spec n b); [lia|]. destruct (lookup sec b); rewrite (IH _ Ir); reflexivity.
Qed.
Definition issuances_unblinded (ins : list pin) : Prop :=
  Forall (fun inp => pin_has_issuance inp = true -> pi_blinded_issuance inp = Some 0%N) ins.
Lemma check_issuances_ok : forall ins k, issuances_unblinded ins -> check_issuances ins k = OVal tt.
Proof.
  induction ins as [|i r IH]; intros k F; cbn [check_issuances]; [reflexivity|]. inversion F as [|? ? Fi Fr]; subst.
  destruct (pin_has_issuance i) eqn:H; cbn [andb]; [rewrite (Fi eq_refl); cbn|]; now apply IH.
Qed.
Lemma owned_by_static sec o o' : same_static o o' -> owned_by sec o' = owned_by sec o.
Proof. intros (_ & _ & _ & K & B). unfold owned_by. now rewrite K, B. Qed.

(* ================================================================== the inputs of the PSET and a party's surjection targets *)
Definition mk_in (i : pin) : txin := mkIn (pi_iss i).
Definition in_ok (inp : pin) (s : secrets) (u : txout) : Prop :=
  pi_utxo inp = Some u /\ asset_opened u s /\ value_opened u s /\ iss_ok (mk_in inp).
Fixpoint all_ss (ins : list pin) (SS : list secrets) : list secrets :=
  match ins, SS with
  | i :: ins', s :: SS' => s :: iss_secrets (mk_in i) ++ all_ss ins' SS'
  | _, _ => []
  end.
Lemma in_ok_opens ins SS utxos : Forall3 in_ok ins SS utxos -> opens (map mk_in ins) utxos (all_ss ins SS).
Proof. induction 1 as [|i s u ins SS utxos (U & A & V & I) F IH]; cbn [map all_ss]; constructor; assumption. Qed.

Definition party_tg (ins : list pin) (sec : list (nat * secrets)) : list sdom :=
  match surjection_inputs ins sec 0 with
  | OVal sis => match surjection_targets sis 0 with OVal tg => tg | _ => [] end
  | _ => [] end.

Lemma surjection_targets_index : forall l k k' tg, surjection_targets l k = OVal tg -> surjection_targets l k' = OVal tg.
Proof.
  induction l as [|s l IH]; intros k k' tg; cbn [surjection_targets]; [auto|].
  destruct (surjection_target s) as [t| |]; cbn [map_err obind]; try discriminate.
  destruct (surjection_targets l (S k)) as [ts| |] eqn:R; cbn [obind]; try discriminate. rewrite (IH _ (S k') _ R). auto.
Qed.
Lemma surjection_targets_app : forall l1 l2 t1 t2 k, surjection_targets l1 k = OVal t1 -> surjection_targets l2 k = OVal t2 ->
  surjection_targets (l1 ++ l2) k = OVal (t1 ++ t2).
Proof.
  induction l1 as [|s l1 IH]; intros l2 t1 t2 k; cbn [app surjection_targets]. - intros [= <-] H. exact H.
  - destruct (surjection_target s) as [t| |]; cbn [map_err obind]; try discriminate.
    destruct (surjection_targets l1 (S k)) as [ts| |] eqn:R; cbn [obind]; try discriminate. intros [= <-] H2.
    rewrite (IH l2 ts t2 (S k) R (surjection_targets_index _ _ _ _ H2)). reflexivity.
Qed.

Section Targets.
  Variable sec : list (nat * secrets).
  (* the party's secrets are the true ones of the inputs it names *)
  Lemma targets_ok : forall ins SS utxos, Forall3 in_ok ins SS utxos -> forall k,
    (forall j s, lookup sec (k + j) = Some s -> nth_error SS j = Some s \/ (length SS <= j)%nat) ->
    exists sis tg, surjection_inputs ins sec k = OVal sis /\ surjection_targets sis 0 = OVal tg
      /\ Forall2 geq (map sgen (all_ss ins SS)) (tgens tg)
      /\ (forall j s, lookup sec (k + j) = Some s -> (j < length ins)%nat -> holds_tg tg (s_asset s)).
  Proof.
    induction 1 as [|i s u ins SS utxos (U & A & V & IO) F IH]; intros k C; [|revert k C; intros k C].
    - exists [], []. repeat split; try constructor. intros j s _ L. cbn in L. lia.
    - destruct (IH (S k)) as (sis & tg & SI & ST & D & H).
      { intros j s' L. replace (S k + j)%nat with (k + S j)%nat in L by lia. destruct (C (S j) s' L) as [N|N]; cbn in N; [now left|right; lia]. }
      cbn [surjection_inputs]. rewrite U, SI. cbn [obind].
      set (target := match lookup sec k with Some s0 => sinput_of_secrets s0 | None => SUnknown (o_asset u) end).
      set (iss := if pin_has_issuance i then _ else []).
      assert (T : exists g t bf, surjection_target target = OVal (g, t, bf) /\ geq (sgen s) g /\ (forall s0, lookup sec k = Some s0 -> t = Some (s_asset s0))).
      { unfold target. destruct (lookup sec k) as [s0|] eqn:LK.
        - assert (s0 = s). { specialize (C 0%nat s0). rewrite Nat.add_0_r in C. destruct (C LK) as [N|N]; cbn in N; [congruence|lia]. } subst s0.
          exists (sgen s), (Some (s_asset s)), (s_abf s). split; [reflexivity|]. split; [reflexivity|]. now intros ? [= <-].
        - destruct A as [[OA AB]|(g & OA & G)]; rewrite OA.
          + exists (gH (s_asset s)), None, 0. split; [reflexivity|]. split; [|discriminate]. unfold sgen. rewrite AB. apply asset_gen_0.
          + exists g, None, 0. split; [reflexivity|]. split; [now symmetry|discriminate]. }
      destruct T as (g & t & bf & T & G & TK).
      assert (IS : exists itg, surjection_targets iss 0 = OVal itg /\ tgens itg = map sgen (iss_secrets (mk_in i))).
      { unfold iss, iss_secrets, pin_has_issuance, mk_in. cbn [in_iss]. destruct (has_issuance (mkIn (pi_iss i))); [|exists []; split; reflexivity].
        destruct IO as [IA IK]. unfold mk_in in IA, IK. cbn [in_iss] in IA, IK.
        destruct IA as [->|(x & -> & X)], IK as [->|(y & -> & Y)]; cbn [value_is_null app surjection_targets surjection_target map_err obind];
          eexists; (split; [reflexivity|reflexivity]). }
      destruct IS as (itg & IST & IG).
      exists (target :: iss ++ sis), ((g, t, bf) :: itg ++ tg). split; [reflexivity|]. split; [|split].
      + cbn [surjection_targets]. rewrite T. cbn [map_err obind].
        rewrite (surjection_targets_app iss sis itg tg 1%nat (surjection_targets_index _ _ _ _ IST) (surjection_targets_index _ _ _ _ ST)). reflexivity.
      + cbn [all_ss map tgens fst]. constructor; [exact G|]. rewrite !map_app. change (map (fun e : gel * option N * Z => fst (fst e)) itg) with (tgens itg). rewrite IG. apply Forall2_app; [|exact D].
        clear. induction (map sgen (iss_secrets (mk_in i))); constructor; [reflexivity|assumption].
      + intros [|j] s0 L LJ.
        * rewrite Nat.add_0_r in L. exists g, bf. left. now rewrite (TK s0 L).
        * replace (k + S j)%nat with (S k + j)%nat in L by lia. cbn [length] in LJ. destruct (H j s0 L ltac:(lia)) as (g' & bf' & I). exists g', bf'. right. apply in_or_app. now right.
  Qed.
End Targets.

(* ================================================================== the published scalar *)
Lemma scalar_formula inp others v abf vbf :
  zadd (last_vbf v abf inp others) (zneg vbf) = zsub (zsum (map vb inp)) (zsum (map vb (others ++ [(v, abf, vbf)]))).
Proof.
  rewrite last_vbf_formula, map_app, zsum_app. cbn [map zsum fold_right vb].
  generalize (zsum (map vb inp)) (zsum (map vb others)). intros X Y. zn_ring.
Qed.

Lemma mod_eqn_eq a b : (a + b mod qn) mod qn = (a + b) mod qn.
Proof. zn_ring. Qed.

Section Flow.
  Variable pubk : Z -> Z.
  Variable ecdh : Z -> Z -> Z.
  Variable p : profile.
  Variables (ins : list pin) (SS : list secrets) (utxos : list txout).
  Hypothesis INS : Forall3 in_ok ins SS utxos.
  Hypothesis ISS : issuances_unblinded ins.
  (* the surjection domain — one entry per input and one per issuance / inflation-keys amount, the same number for every
     party (party_tg_length) — is within the limit of Asset::blind *)
  Hypothesis DOM : within_limit (length (all_ss ins SS)).

  Definition sec_ok (sec : list (nat * secrets)) : Prop := forall i s, lookup sec i = Some s -> nth_error SS i = Some s.
  Definition Isum (sec : list (nat * secrets)) : Z := zsum (map svb (map snd sec)).

  Lemma party_targets sec : sec_ok sec ->
    exists sis, surjection_inputs ins sec 0 = OVal sis /\ surjection_targets sis 0 = OVal (party_tg ins sec)
      /\ Forall2 geq (map sgen (all_ss ins SS)) (tgens (party_tg ins sec))
      /\ (forall j s, lookup sec j = Some s -> holds_tg (party_tg ins sec) (s_asset s)).
  Proof.
    intro OK. destruct (targets_ok sec ins SS utxos INS 0%nat) as (sis & tg & SI & ST & D & H).
    { intros j s L. left. now apply OK. }
    exists sis. unfold party_tg. rewrite SI, ST. repeat split; try assumption.
    intros j s L. apply (H j s L). cbn [Nat.add]. destruct (Forall3_length _ _ _ _ INS) as [LS _].
    assert (j < length SS)%nat by (apply nth_error_Some; rewrite (OK j s L); discriminate). lia.
  Qed.

  Lemma party_tg_length sec : sec_ok sec -> length (party_tg ins sec) = length (all_ss ins SS).
  Proof.
    intro OK. destruct (party_targets sec OK) as (_ & _ & _ & D & _).
    assert (L : forall {A B} (R : A -> B -> Prop) l l', Forall2 R l l' -> length l = length l') by (induction 1; cbn; congruence).
    apply L in D. unfold tgens in D. rewrite !map_length in D. now symmetry.
  Qed.
  Lemma party_tg_small sec : sec_ok sec -> within_limit (length (party_tg ins sec)).
  Proof. intro OK. rewrite (party_tg_length sec OK). exact DOM. Qed.

  (* blind_non_last on a state whose outputs owned by this party are still explicit *)
  Lemma non_last_char ps sec rnd :
    ps_in ps = ins -> sec_ok sec -> indices_ok (length ins) (ps_out ps) ->
    (forall i, In i (owned_idx sec (ps_out ps) 0) -> exists o, nth_error (ps_out ps) i = Some o /\ pgood (party_tg ins sec) o) ->
    (3 * length (owned_idx sec (ps_out ps) 0) <= length rnd)%nat -> Forall in_zn rnd ->
    let idx := owned_idx sec (ps_out ps) 0 in
    exists outs' bl rnd',
      blind_non_last pubk ecdh p ps sec rnd =
        OVal (mkPset ins outs' (match idx with [] => ps_scalars ps
                                | _ => ps_scalars ps ++ [zsub (Isum sec) (Osum outs' idx)] end), bl, rnd')
      /\ length outs' = length (ps_out ps) /\ (forall j, ~ In j idx -> nth_error outs' j = nth_error (ps_out ps) j)
      /\ (forall i, In i idx -> exists o o', nth_error (ps_out ps) i = Some o /\ nth_error outs' i = Some o' /\ blinded_form pubk ecdh (party_tg ins sec) o o')
      /\ (length rnd' + 3 * length idx = length rnd)%nat /\ Forall in_zn rnd'
      /\ Forall2 (fun i r => fst r = i /\ exists o', nth_error outs' i = Some o' /\ fst (fst (snd r)) = s_abf (osec_of o') /\ snd (fst (snd r)) = s_vbf (osec_of o')) idx bl.
  Proof.
    intros EI OK IO G RL RZ idx. unfold blind_non_last, blind_checks. rewrite EI, (check_issuances_ok _ _ ISS). cbn [obind].
    rewrite (outs_to_blind_eq _ _ _ _ IO). cbn [obind]. fold idx.
    destruct idx as [|i0 idx0] eqn:EIDX.
    - exists (ps_out ps), [], rnd. destruct ps as [pi po psc]; cbn [ps_in ps_out ps_scalars] in *. subst pi.
      repeat split; try constructor; try assumption; try (cbn; lia); intros ? [].
    - rewrite <- EIDX in *. destruct (party_targets sec OK) as (sis & SI & ST & D & H). rewrite SI. cbn [obind].
      destruct (blind_each_ok pubk ecdh p (party_tg ins sec) (party_tg_small sec OK) sis ST idx (ps_out ps) rnd (owned_idx_nodup _ _ _) G RL RZ)
        as (outs' & osecs & reps & rnd' & BE & L & U & F & S & LO & R2 & LR & RZ').
      rewrite BE. cbn [obind].
      assert (NE : osecs <> []) by (intro E; rewrite E, EIDX in LO; discriminate).
      destruct (rev osecs) as [|[[v abf] vbf] others_rev] eqn:RV.
      { exfalso. apply NE. rewrite <- (rev_involutive osecs), RV. reflexivity. }
      assert (EO : osecs = rev others_rev ++ [(v, abf, vbf)]) by (rewrite <- (rev_involutive osecs), RV; reflexivity).
      exists outs', reps, rnd'. rewrite scalar_formula, <- EO, S, map_map. unfold Isum. rewrite map_map.
      split; [rewrite EIDX; reflexivity|]. repeat split; assumption.
  Qed.

  (* ---- blind_last *)
  Lemma set_blinder_index_restore o : set_blinder_index (set_blinder_index o None) (po_blinder_index o) = o.
  Proof. now destruct o. Qed.
  Lemma zsum_exp_zero l : Forall (fun x => snd (fst x) = 0 /\ snd x = 0) l -> zsum (map vb l) = 0.
  Proof.
    induction 1 as [|[[v a] b] l [A B] F IH]; cbn [map zsum fold_right]; [reflexivity|]. fold (zsum (map vb l)). rewrite IH.
    cbn [fst snd] in A, B. subst. cbn [vb]. unfold zadd, zmul. rewrite Z.mul_0_r. reflexivity.
  Qed.
  Lemma explicit_out_secrets_ok : forall outs k, Forall (fun o => po_blinding_key o = None -> po_amount o <> None) outs ->
    exists l, explicit_out_secrets outs k = OVal l /\ Forall (fun x => snd (fst x) = 0 /\ snd x = 0) l.
  Proof.
    induction outs as [|o r IH]; intros k F; cbn [explicit_out_secrets]. - exists []. split; constructor.
    - inversion F as [|? ? Fo Fr]; subst. destruct (IH (S k) Fr) as (l & -> & Z0). destruct (po_blinding_key o).
      + exists l. split; [reflexivity|exact Z0].
      + destruct (po_amount o) as [amt|]; [|exfalso; now apply Fo]. cbn [opt_err obind]. exists ((amt, 0, 0) :: l). split; [reflexivity|].
        constructor; [split; reflexivity|exact Z0].
  Qed.
  Lemma fold_left_zadd_eqn l acc : eqn (fold_left zadd l acc) (acc + zsum l).
  Proof. rewrite fold_left_zadd, zsum_eqn. reflexivity. Qed.
  Lemma owned_idx_app sec : forall a b k, owned_idx sec (a ++ b) k = owned_idx sec a k ++ owned_idx sec b (k + length a).
  Proof.
    induction a as [|o a IH]; intros b k; cbn [app owned_idx length]. - now rewrite Nat.add_0_r.
    - rewrite IH. replace (S k + length a)%nat with (k + S (length a))%nat by lia. destruct (owned_by sec o); reflexivity.
  Qed.
  (* un-assigning one owned output removes exactly its index *)
  Lemma owned_idx_unassign sec outs i lo : nth_error outs i = Some lo -> owned_by sec lo = true ->
    exists pre post, owned_idx sec outs 0 = pre ++ i :: post
      /\ owned_idx sec (set_nth outs i (set_blinder_index lo None)) 0 = pre ++ post.
  Proof.
    intros NE OB. destruct (nth_error_split _ _ NE) as (l1 & l2 & -> & L). subst i.
    replace (set_nth (l1 ++ lo :: l2) (length l1) (set_blinder_index lo None)) with (l1 ++ set_blinder_index lo None :: l2)
      by (clear; induction l1; cbn; congruence).
    rewrite !owned_idx_app. cbn [owned_idx Nat.add]. rewrite OB.
    replace (owned_by sec (set_blinder_index lo None)) with false by (unfold owned_by; cbn; now destruct (po_blinding_key lo)).
    now exists (owned_idx sec l1 0), (owned_idx sec l2 (S (length l1))).
  Qed.

  Lemma rev_last_split {A} (pre post r : list A) x : NoDup (pre ++ x :: post) -> rev (pre ++ x :: post) = x :: r -> post = [] /\ r = rev pre.
  Proof.
    intros ND E. rewrite rev_app_distr in E. cbn [rev] in E. rewrite <- app_assoc in E. cbn [app] in E.
    destruct (rev post) as [|y ys] eqn:RP.
    - cbn [app] in E. injection E as <-. split; [|reflexivity]. rewrite <- (rev_involutive post), RP. reflexivity.
    - cbn [app] in E. injection E as -> _. exfalso. apply NoDup_remove_2 in ND. apply ND. apply in_or_app. right.
      apply in_rev. rewrite RP. now left.
  Qed.
  Lemma Osum_app outs a b : Osum outs (a ++ b) = zadd (Osum outs a) (Osum outs b).
  Proof. unfold Osum. now rewrite map_app, zsum_app. Qed.
  Lemma Osum_ext outs outs' l : (forall i, In i l -> nth_error outs' i = nth_error outs i) -> Osum outs' l = Osum outs l.
  Proof. intro H. unfold Osum. f_equal. apply map_ext_in. intros i I. now rewrite (H i I). Qed.
  Lemma nth_set_eq' {A} (l : list A) : forall j x y, nth_error l j = Some x -> nth_error (set_nth l j y) j = Some y.
  Proof. induction l as [|a l IH]; intros [|j] x y NE; cbn in *; try discriminate; eauto. Qed.
  Lemma nth_set_neq' {A} (l : list A) : forall j k y, j <> k -> nth_error (set_nth l j y) k = nth_error l k.
  Proof. induction l as [|a l IH]; intros [|j] [|k] y NE; cbn; auto; try congruence. Qed.
  Lemma set_nth_length' {A} (l : list A) : forall j y, length (set_nth l j y) = length l.
  Proof. induction l as [|a l IH]; intros [|j] y; cbn; auto. Qed.

  (* the last part of blind_last: blinding the final output of the last party on a state X *)
  Lemma last_output_char X scal sec rnd last lo inp :
    sec_ok sec -> nth_error X last = Some lo -> pgood (party_tg ins sec) lo ->
    Forall (fun o => po_blinding_key o = None -> po_amount o <> None) X ->
    (2 <= length rnd)%nat -> Forall in_zn rnd ->
    exists s esk j bf rnd' sis,
      surjection_inputs ins sec 0 = OVal sis /\
      po_asset lo = Some (s_asset s) /\ po_amount lo = Some (s_value s) /\ in_zn (s_abf s) /\ 1 <= s_value s <= I64_MAX
      /\ find_tag (s_asset s) (party_tg ins sec) 0 = Some (j, bf)
      /\ eqn (svb s) (zsum (map vb inp) + zsum scal)
      /\ forall ret,
        (let* surject_inputs := surjection_inputs ins sec 0 in
         match nth_error X last with
         | None => OPanic PIndex
         | Some lo =>
            let* asset_id := opt_err (po_asset lo) (PMustHaveExplicitTxOut last) in
            let* (out_abf, rnd) := lift_blind last (draw rnd) in
            let* (out_asset_commitment, surjection_proof) := lift_blind last (asset_blind (AExp asset_id) out_abf surject_inputs) in
            let* value := opt_err (po_amount lo) (PMustHaveExplicitTxOut last) in
            let* exp_out_secrets := explicit_out_secrets X 0 in
            let final_vbf := last_vbf value out_abf inp exp_out_secrets in
            let final_vbf := fold_left zadd scal final_vbf in
            let* receiver_blinding_pk := opt_err (po_blinding_key lo) (PMustHaveExplicitTxOut last) in
            let* (ephemeral_sk, rnd) := lift_blind last (draw rnd) in
            let msg := (asset_id, out_abf) in
            let* (value_commitment, nonce, rangeproof) :=
              lift_blind last (value_blind pubk ecdh (VExp value) final_vbf receiver_blinding_pk ephemeral_sk (po_script lo) msg) in
            let t' := mkOut out_asset_commitment value_commitment nonce (po_script lo) (Some rangeproof) (Some surjection_proof) in
            let* bap := opt_err (blind_asset_proof asset_id out_abf) (PBlindingProofsCreationError last) in
            match o_asset t', o_value t' with
            | AConf asset_gen, VConf value_comm =>
                let* bvp := opt_err (blind_value_proof value value_comm asset_gen final_vbf) (PBlindingProofsCreationError last) in
                OVal (mkPset ins (set_nth X last (set_blinded lo t' (Some bvp) (Some bap))) [],
                      ret ++ [(last, (out_abf, final_vbf, ephemeral_sk))], rnd)
            | _, _ => OPanic PUnwrapExplicit
            end
         end)
        = OVal (mkPset ins (set_nth X last (blinded_as pubk ecdh (party_tg ins sec) lo s esk j bf)) [],
                ret ++ [(last, (s_abf s, s_vbf s, esk))], rnd').
  Proof.
    intros OK NE (a & v & rk & A & V & K & R & _ & H & _ & _) FX RL RZ.
    destruct rnd as [|abf [|esk rnd']]; cbn [length] in RL; try lia.
    assert (Zabf : in_zn abf) by (inversion RZ; assumption).
    destruct (party_targets sec OK) as (sis & SI & ST & _ & _).
    destruct (asset_blind_ok a abf sis _ ST (party_tg_small sec OK) H) as (j & bf & F & AB).
    destruct (explicit_out_secrets_ok X 0%nat FX) as (exp & EO & EZ).
    set (fv := fold_left zadd scal (last_vbf v abf inp exp)).
    exists (mkSec a abf v fv), esk, j, bf, rnd', sis. cbn [s_asset s_value s_abf s_vbf].
    split; [exact SI|]. split; [exact A|]. split; [exact V|]. split; [exact Zabf|]. split; [exact R|]. split; [exact F|]. split.
    - unfold svb. cbn [vb s_value s_abf s_vbf]. unfold fv.
      assert (E1 : eqn (fold_left zadd scal (last_vbf v abf inp exp)) (last_vbf v abf inp exp + zsum scal)) by apply fold_left_zadd_eqn.
      pose proof (last_vbf_formula v abf inp exp) as LF. rewrite (zsum_exp_zero exp EZ) in LF. revert E1 LF.
      generalize (fold_left zadd scal (last_vbf v abf inp exp)) (last_vbf v abf inp exp) (zsum (map vb inp)) (zsum scal). intros W1 L1 X1 Y1 E1 LF.
      unfold zadd, zmul. repeat match goal with |- context [(?a mod qn)%Z] => rewrite (mod_eqn a) end. rewrite E1, LF.
      unfold zsub, zmul. repeat match goal with |- context [(?a mod qn)%Z] => rewrite (mod_eqn a) end. unfold eqn. f_equal. ring.
    - intro ret. rewrite SI. cbn [obind]. rewrite NE, A. cbn [opt_err obind draw lift_blind map_err]. rewrite AB. cbn [map_err obind]. rewrite V, EO. cbn [opt_err obind].
      fold fv. rewrite K. cbn [opt_err obind draw map_err].
      unfold value_blind, value_blind_with_shared_secret. cbn [fst snd]. unfold I64_MAX in R.
      rewrite min_guard by lia. rewrite pedersen_new_ok by (pose proof qn_big; lia). cbn [obind]. rewrite rp_new_some by (unfold I64_MAX; lia). cbn [obind map_err].
      unfold blind_asset_proof, sp_new. cbn [find_tag]. rewrite N.eqb_refl. cbn [opt_err obind o_asset o_value blind_value_proof].
      unfold blinded_as. rewrite K. unfold blind_asset_proof, blind_value_proof, sp_new. cbn [find_tag s_asset s_abf s_value s_vbf]. rewrite N.eqb_refl.
      reflexivity.
  Qed.

  Lemma pgood_key tgx o : pgood tgx o -> po_blinding_key o <> None.
  Proof. intros (a & v & rk & _ & _ & K & _). rewrite K. discriminate. Qed.

  Lemma last_char ps sec rnd :
    ps_in ps = ins -> sec_ok sec -> indices_ok (length ins) (ps_out ps) ->
    (forall i, In i (owned_idx sec (ps_out ps) 0) -> exists o, nth_error (ps_out ps) i = Some o /\ pgood (party_tg ins sec) o) ->
    Forall (fun o => po_blinding_key o = None -> po_amount o <> None) (ps_out ps) ->
    owned_idx sec (ps_out ps) 0 <> [] ->
    (3 * length (owned_idx sec (ps_out ps) 0) <= length rnd + 1)%nat -> Forall in_zn rnd ->
    let idx := owned_idx sec (ps_out ps) 0 in
    exists outs' bl rnd',
      blind_last pubk ecdh p ps sec rnd = OVal (mkPset ins outs' [], bl, rnd')
      /\ length outs' = length (ps_out ps) /\ (forall j, ~ In j idx -> nth_error outs' j = nth_error (ps_out ps) j)
      /\ (forall i, In i idx -> exists o o', nth_error (ps_out ps) i = Some o /\ nth_error outs' i = Some o' /\ blinded_form pubk ecdh (party_tg ins sec) o o')
      /\ eqn (Osum outs' idx) (Isum sec + zsum (ps_scalars ps)).
  Proof.
    intros EI OK IO G FX NE RL RZ idx. destruct ps as [pi X scal]. cbn [ps_in ps_out ps_scalars] in *. subst pi.
    unfold blind_last, blind_checks. cbn [ps_in ps_out ps_scalars]. rewrite (check_issuances_ok _ _ ISS). cbn [obind].
    rewrite (outs_to_blind_eq _ _ _ _ IO). cbn [obind]. fold idx.
    destruct (rev idx) as [|last rest_rev] eqn:RV. { exfalso. apply NE. fold idx. rewrite <- (rev_involutive idx), RV. reflexivity. }
    assert (EIDX : idx = rev rest_rev ++ [last]) by (rewrite <- (rev_involutive idx), RV; reflexivity).
    assert (ILAST : In last idx) by (rewrite EIDX; apply in_or_app; right; now left).
    destruct (G last ILAST) as (lo & NL & PGL).
    assert (OBL : owned_by sec lo = true).
    { apply owned_idx_spec in ILAST as (_ & o' & NE' & OB). rewrite Nat.sub_0_r, NL in NE'. now injection NE' as <-. }
    destruct rest_rev as [|r0 rr].
    - (* the party has a single output *)
      cbn [obind]. cbn [rev app] in EIDX.
      destruct (last_output_char X scal sec rnd last lo (map (fun e => value_blind_inputs (snd e)) sec) OK NL PGL FX) as
        (s & esk & j & bf & rnd' & sis & SI & A & V & Zabf & R & F & EQ & RUN); [fold idx in RL; rewrite EIDX in RL; cbn in RL; lia|exact RZ|].
      exists (set_nth X last (blinded_as pubk ecdh (party_tg ins sec) lo s esk j bf)), ([] ++ [(last, (s_abf s, s_vbf s, esk))]), rnd'.
      split; [exact (RUN [])|]. split; [apply set_nth_length'|]. split; [|split].
      + intros k NK. apply nth_set_neq'. intros ->. apply NK. exact ILAST.
      + intros i I. rewrite EIDX in I. destruct I as [<-|[]]. exists lo. eexists. split; [exact NL|]. split; [eapply nth_set_eq', NL|].
        exists s, esk, j, bf. exact (conj A (conj V (conj Zabf (conj R (conj F (conj (pgood_key _ _ PGL) eq_refl)))))).
      + rewrite EIDX. unfold Osum. cbn [map zsum fold_right]. rewrite (nth_set_eq' _ _ _ _ NL).
        assert (OS : osec_of (blinded_as pubk ecdh (party_tg ins sec) lo s esk j bf) = s).
        { unfold blinded_as. destruct (po_blinding_key lo) eqn:K; [|exfalso; now apply (pgood_key _ _ PGL)]. unfold osec_of. cbn. apply secrets_eta. }
        rewrite OS. unfold zadd. rewrite Z.add_0_r, mod_eqn, EQ. unfold Isum. rewrite !map_map. unfold eqn. reflexivity.
    - (* several outputs: all but the last are blinded through blind_non_last on the un-assigned state *)
      rewrite NL.
      destruct (owned_idx_unassign sec X last lo NL OBL) as (pre & post & E1 & E2).
      pose proof (owned_idx_nodup sec X 0) as NDI. unfold idx in RV, EIDX, ILAST.
      rewrite E1 in RV, NDI. destruct (rev_last_split pre post _ last NDI RV) as (-> & ERR). subst idx. rewrite E1 in *.
      set (X1 := set_nth X last (set_blinder_index lo None)) in *. rewrite app_nil_r in E2.
      assert (N1 : forall k, k <> last -> nth_error X1 k = nth_error X k) by (intros k NK; apply nth_set_neq'; congruence).
      assert (NLP : ~ In last pre). { intro I. apply NoDup_remove_2 in NDI. apply NDI. rewrite app_nil_r. exact I. }
      destruct (non_last_char (mkPset ins X1 scal) sec rnd eq_refl OK) as (outs2 & bl2 & rnd2 & BN & L2 & U2 & F2 & LR2 & RZ2 & R2);
        cbn [ps_out ps_scalars]; try rewrite E2; try assumption.
      { unfold indices_ok in *. rewrite Forall_forall in *. intros o I b KN BI. apply In_nth_error in I as (k & NK).
        destruct (Nat.eq_dec k last) as [->|NKL].
        - unfold X1 in NK. rewrite (nth_set_eq' _ _ _ _ NL) in NK. injection NK as <-. cbn in BI. discriminate.
        - rewrite N1 in NK by exact NKL. exact (IO o (nth_error_In _ _ NK) b KN BI). }
      { intros i I. destruct (G i) as (o & NO & PG); [apply in_or_app; now left|]. exists o. split; [|exact PG]. rewrite N1; [exact NO|]. intros ->. contradiction. }
      { cbn [length] in RL. rewrite app_length in RL. cbn [length] in RL. lia. }
      cbn [ps_out ps_scalars ps_in] in BN, L2, U2, F2, LR2, R2. rewrite E2 in BN, U2, F2, LR2, R2. rewrite BN. cbn [obind ps_out ps_in ps_scalars].
      assert (PNE : pre <> []). { intro E. rewrite E in ERR. cbn in ERR. discriminate. }
      destruct pre as [|p0 pre0] eqn:EP; [contradiction|]. rewrite <- EP in *.
      assert (NL2 : nth_error outs2 last = Some (set_blinder_index lo None)).
      { rewrite (U2 last NLP). unfold X1. eapply nth_set_eq', NL. }
      rewrite NL2. cbn [obind ps_out ps_in ps_scalars]. rewrite set_blinder_index_restore.
      set (X3 := set_nth outs2 last lo).
      assert (N3 : forall k, k <> last -> nth_error X3 k = nth_error outs2 k) by (intros k NK; apply nth_set_neq'; congruence).
      assert (NL3 : nth_error X3 last = Some lo) by (eapply nth_set_eq', NL2).
      assert (FX3 : Forall (fun o => po_blinding_key o = None -> po_amount o <> None) X3).
      { rewrite Forall_forall in *. intros o I. apply In_nth_error in I as (k & NK). destruct (Nat.eq_dec k last) as [->|NKL].
        - rewrite NL3 in NK. injection NK as <-. intro KN. exfalso. now apply (pgood_key _ _ PGL).
        - rewrite N3 in NK by exact NKL. destruct (in_dec Nat.eq_dec k pre) as [IP|NIP].
          + destruct (F2 k IP) as (o0 & o' & _ & NO' & BF). rewrite NK in NO'. injection NO' as <-.
            destruct BF as (s0 & esk0 & j0 & bf0 & _ & _ & _ & _ & _ & KN & ->). intro K0. exfalso. apply KN.
            destruct (blinded_as_static pubk ecdh (party_tg ins sec) o0 s0 esk0 j0 bf0) as (_ & _ & _ & KS & _). congruence.
          + rewrite (U2 k NIP), N1 in NK by exact NKL. exact (FX o (nth_error_In _ _ NK)). }
      destruct (last_output_char X3 (scal ++ [zsub (Isum sec) (Osum outs2 pre)]) sec rnd2 last lo [] OK NL3 PGL FX3) as
        (s & esk & j & bf & rnd' & sis & SI & A & V & Zabf & R & F & EQ & RUN); [cbn [length] in *; rewrite app_length in RL; cbn [length] in RL; lia|exact RZ2|].
      exists (set_nth X3 last (blinded_as pubk ecdh (party_tg ins sec) lo s esk j bf)), (bl2 ++ [(last, (s_abf s, s_vbf s, esk))]), rnd'.
      split; [rewrite EP in *; exact (RUN bl2)|]. split; [unfold X3; rewrite !set_nth_length', L2; apply set_nth_length'|]. split; [|split].
      + intros k NK. assert (k <> last) by (intros ->; apply NK; apply in_or_app; right; now left).
        rewrite nth_set_neq' by congruence. rewrite N3 by assumption. rewrite U2 by (intro; apply NK; apply in_or_app; now left). now apply N1.
      + intros i I. apply in_app_or in I as [I|[<-|[]]].
        * assert (i <> last) by (intros ->; contradiction). destruct (F2 i I) as (o0 & o' & NO & NO' & BF). exists o0, o'.
          split; [rewrite <- NO; symmetry; now apply N1|]. split; [|exact BF]. rewrite nth_set_neq' by congruence. rewrite N3 by assumption. exact NO'.
        * exists lo. eexists. split; [exact NL|]. split; [eapply nth_set_eq', NL3|]. exists s, esk, j, bf. exact (conj A (conj V (conj Zabf (conj R (conj F (conj (pgood_key _ _ PGL) eq_refl)))))).
      + rewrite Osum_app. unfold Osum at 2. cbn [map zsum fold_right]. rewrite (nth_set_eq' _ _ _ _ NL3).
        assert (OS : osec_of (blinded_as pubk ecdh (party_tg ins sec) lo s esk j bf) = s).
        { unfold blinded_as. destruct (po_blinding_key lo) eqn:K; [|exfalso; now apply (pgood_key _ _ PGL)]. unfold osec_of. cbn. apply secrets_eta. }
        rewrite OS. rewrite (Osum_ext outs2).
        2:{ intros i I. assert (i <> last) by (intros ->; contradiction). rewrite nth_set_neq' by congruence. now apply N3. }
        cbn [map zsum fold_right] in EQ. rewrite zsum_app in EQ. cbn [zsum fold_right] in EQ.
        revert EQ. generalize (Osum outs2 pre) (Isum sec) (zsum scal) (svb s). intros O1 I1 S1 W1 EQ.
        unfold zadd. rewrite !Z.add_0_r. repeat match goal with |- context [(?a mod qn)%Z] => rewrite (mod_eqn a) end. rewrite EQ.
        unfold zadd, zsub. repeat match goal with |- context [(?a mod qn)%Z] => rewrite (mod_eqn a) end. unfold eqn. f_equal. ring.
  Qed.

  (* ================================================================== the flow: an invariant over the parties that have blinded so far *)
  Variable outs0 : list pout.
  Hypothesis IDX0 : indices_ok (length ins) outs0.
  Definition party := (list (nat * secrets) * list Z)%type.
  Definition pidx (P : party) : list nat := owned_idx (fst P) outs0 0.
  Definition didx (l : list party) : list nat := flat_map pidx l.
  Definition party_ok (slack : nat) (P : party) : Prop :=
    sec_ok (fst P) /\ pidx P <> []
    /\ (forall i, In i (pidx P) -> exists o, nth_error outs0 i = Some o /\ pgood (party_tg ins (fst P)) o)
    /\ (3 * length (pidx P) <= length (snd P) + slack)%nat /\ Forall in_zn (snd P).
  (* no output is assigned to two parties *)
  Definition out_disjoint (P Q : party) : Prop := forall o, In o outs0 -> owned_by (fst P) o = true -> owned_by (fst Q) o = true -> False.

  Definition Inv (ps : pset) (done : list party) : Prop :=
    ps_in ps = ins /\ length (ps_out ps) = length outs0
    /\ (forall j o0, nth_error outs0 j = Some o0 -> exists o, nth_error (ps_out ps) j = Some o
          /\ ((forall P, In P done -> owned_by (fst P) o0 = false) -> o = o0)
          /\ (forall P, In P done -> owned_by (fst P) o0 = true -> blinded_form pubk ecdh (party_tg ins (fst P)) o0 o))
    /\ eqn (zsum (ps_scalars ps)) (zsum (map (fun P => Isum (fst P)) done) - Osum (ps_out ps) (didx done)).

  Lemma blinded_form_static tgx o o' : blinded_form pubk ecdh tgx o o' -> same_static o o'.
  Proof. intros (s & esk & j & bf & _ & _ & _ & _ & _ & _ & ->). apply blinded_as_static. Qed.
  Lemma Inv_static ps done : Inv ps done -> forall j o0 o, nth_error outs0 j = Some o0 -> nth_error (ps_out ps) j = Some o -> same_static o0 o.
  Proof.
    intros (_ & _ & I3 & _) j o0 o N0 N. destruct (I3 j o0 N0) as (o' & N' & U & B). rewrite N in N'. injection N' as <-.
    destruct (existsb (fun P => owned_by (fst P) o0) done) eqn:E.
    - apply existsb_exists in E as (P & IP & OB). exact (blinded_form_static _ _ _ (B P IP OB)).
    - rewrite U; [apply same_static_refl|]. intros P IP. destruct (owned_by (fst P) o0) eqn:OB; [|reflexivity].
      assert (X : existsb (fun P => owned_by (fst P) o0) done = true) by (apply existsb_exists; now exists P). congruence.
  Qed.
  Lemma owned_idx_static sec : forall outs outs' k, length outs' = length outs ->
    (forall j o o', nth_error outs j = Some o -> nth_error outs' j = Some o' -> same_static o o') ->
    owned_idx sec outs' k = owned_idx sec outs k.
  Proof.
    induction outs as [|o r IH]; intros [|o' r'] k L H; cbn in L; try discriminate; [reflexivity|]. cbn [owned_idx].
    rewrite (owned_by_static sec o o' (H 0%nat o o' eq_refl eq_refl)), (IH r' (S k)); [reflexivity|lia|].
    intros j a b A B. exact (H (S j) a b A B).
  Qed.
  Lemma Inv_idx ps done sec : Inv ps done -> owned_idx sec (ps_out ps) 0 = owned_idx sec outs0 0.
  Proof. intro I. apply owned_idx_static; [apply I|]. intros j o o'. apply (Inv_static ps done I). Qed.
  Lemma Inv_indices ps done : Inv ps done -> indices_ok (length ins) (ps_out ps).
  Proof.
    intro I. unfold indices_ok in *. rewrite Forall_forall in *. intros o IN b K B. apply In_nth_error in IN as (j & N).
    destruct I as (I1 & I2 & I3 & I4). assert (LJ : (j < length outs0)%nat) by (rewrite <- I2; apply nth_error_Some; congruence).
    destruct (nth_error outs0 j) as [o0|] eqn:N0; [|apply nth_error_None in N0; lia].
    destruct (Inv_static ps done (conj I1 (conj I2 (conj I3 I4))) j o0 o N0 N) as (_ & _ & _ & KS & BS).
    apply (IDX0 o0 (nth_error_In _ _ N0) b); congruence.
  Qed.

  (* one non-last party *)
  Lemma Inv_step ps done P : Inv ps done -> party_ok 0 P -> (forall Q, In Q done -> out_disjoint P Q) ->
    exists ps' bl rnd', blind_non_last pubk ecdh p ps (fst P) (snd P) = OVal (ps', bl, rnd') /\ Inv ps' (done ++ [P]).
  Proof.
    intros I (OK & NE & G & RL & RZ) DJ. pose proof I as (I1 & I2 & I3 & I4).
    pose proof (Inv_idx ps done (fst P) I) as EIX. fold (pidx P) in EIX.
    assert (UNCH : forall i, In i (pidx P) -> forall o0, nth_error outs0 i = Some o0 -> nth_error (ps_out ps) i = Some o0).
    { intros i II o0 N0. destruct (I3 i o0 N0) as (o & N & U & _). rewrite N. f_equal. apply U. intros Q IQ.
      destruct (owned_by (fst Q) o0) eqn:OB; [|reflexivity]. exfalso. apply (DJ Q IQ o0 (nth_error_In _ _ N0)); [|exact OB].
      apply owned_idx_spec in II as (_ & o' & N' & OB'). rewrite Nat.sub_0_r, N0 in N'. now injection N' as <-. }
    destruct (non_last_char ps (fst P) (snd P) I1 OK (Inv_indices ps done I)) as (outs' & bl & rnd' & BN & L & U & F & _ & _ & _);
      try rewrite EIX; try assumption; try lia.
    { intros i II. destruct (G i II) as (o0 & N0 & PG). exists o0. split; [now apply UNCH|exact PG]. }
    rewrite EIX in BN, U, F. exists (mkPset ins outs' (match pidx P with [] => ps_scalars ps | _ => ps_scalars ps ++ [zsub (Isum (fst P)) (Osum outs' (pidx P))] end)), bl, rnd'.
    split; [exact BN|]. split; [reflexivity|]. cbn [ps_out ps_scalars]. split; [congruence|]. split.
    - intros j o0 N0. destruct (in_dec Nat.eq_dec j (pidx P)) as [IJ|NJ].
      + destruct (F j IJ) as (o & o' & N & N' & BF). rewrite (UNCH j IJ o0 N0) in N. injection N as <-.
        assert (OBP : owned_by (fst P) o0 = true). { apply owned_idx_spec in IJ as (_ & o'' & N'' & OB). rewrite Nat.sub_0_r, N0 in N''. now injection N'' as <-. }
        exists o'. split; [exact N'|]. split.
        * intro H. assert (IPP : In P (done ++ [P])) by (apply in_or_app; right; now left). specialize (H P IPP). congruence.
        * intros Q IQ OBQ. apply in_app_or in IQ as [IQ|[<-|[]]]; [|exact BF]. exfalso. exact (DJ Q IQ o0 (nth_error_In _ _ N0) OBP OBQ).
      + destruct (I3 j o0 N0) as (o & N & UU & BB). exists o. rewrite (U j NJ). split; [exact N|].
        assert (OBP : owned_by (fst P) o0 = false).
        { destruct (owned_by (fst P) o0) eqn:OB; [|reflexivity]. exfalso. apply NJ. apply owned_idx_spec. split; [lia|]. exists o0. rewrite Nat.sub_0_r. auto. }
        split.
        * intro H. apply UU. intros Q IQ. apply H. apply in_or_app. now left.
        * intros Q IQ OBQ. apply in_app_or in IQ as [IQ|[<-|[]]]; [now apply BB|congruence].
    - destruct (pidx P) as [|i0 r0] eqn:EP; [contradiction|]. rewrite <- EP in *.
      rewrite zsum_app, map_app, zsum_app. cbn [map zsum fold_right]. unfold didx. rewrite flat_map_app. cbn [flat_map]. rewrite app_nil_r. fold (didx done).
      rewrite Osum_app. rewrite (Osum_ext (ps_out ps) outs' (didx done)).
      2:{ intros i II. apply U. intro IP. unfold didx in II. apply in_flat_map in II as (Q & IQ & IIQ).
          apply owned_idx_spec in IP as (_ & o1 & N1 & OB1). apply owned_idx_spec in IIQ as (_ & o2 & N2 & OB2). rewrite Nat.sub_0_r in *. rewrite N1 in N2. injection N2 as <-.
          exact (DJ Q IQ o1 (nth_error_In _ _ N1) OB1 OB2). }
      unfold party in *. revert I4. generalize (zsum (ps_scalars ps)) (zsum (map (fun P0 : list (nat * secrets) * list Z => Isum (fst P0)) done)) (Osum (ps_out ps) (didx done)) (Isum (fst P)) (Osum outs' (pidx P)).
      intros A1 A2 A3 A4 A5 I4. unfold zadd, zsub. rewrite Z.add_0_r. repeat match goal with |- context [(?a mod qn)%Z] => rewrite (mod_eqn a) end. rewrite I4.
      unfold eqn. f_equal. ring.
  Qed.

  Variable hop : pset -> pset.
  Hypothesis hop_id : forall ps, hop ps = ps.       (* serialize/deserialize is the identity on the modelled fields (C07) *)

  Definition pairwise_disjoint (all : list party) : Prop := forall P Q, In P all -> In Q all -> P <> Q -> out_disjoint P Q.

  Lemma NoDup_app_iff' {A} (a b : list A) : NoDup (a ++ b) -> NoDup a /\ NoDup b.
  Proof.
    induction a as [|x a IH]; cbn [app]; intro H. - split; [constructor|exact H].
    - inversion H as [|? ? NI ND]; subst. destruct (IH ND) as [Na Nb]. split; [|exact Nb]. constructor; [|exact Na].
      intro I. apply NI. apply in_or_app. now left.
  Qed.
  Lemma run_nonlast_ok : forall l done ps, Inv ps done -> (forall P, In P l -> party_ok 0 P) ->
    NoDup (done ++ l) -> pairwise_disjoint (done ++ l) ->
    exists ps', run_nonlast pubk ecdh hop p ps l = OVal ps' /\ Inv ps' (done ++ l).
  Proof.
    induction l as [|P l IH]; intros done ps I OKs ND PD; cbn [run_nonlast].
    - exists ps. rewrite app_nil_r. auto.
    - destruct (Inv_step ps done P I (OKs P (or_introl eq_refl))) as (ps' & bl & rnd' & BN & I').
      { intros Q IQ. apply PD; [apply in_or_app; right; now left|apply in_or_app; now left|].
        intros ->. apply NoDup_remove_2 in ND. apply ND. apply in_or_app. now left. }
      destruct P as [sec rnd]. cbn [fst snd] in BN. rewrite BN. cbn [obind]. rewrite hop_id.
      destruct (IH (done ++ [(sec, rnd)]) ps' I') as (ps'' & R & I'').
      + intros Q IQ. apply OKs. now right.
      + rewrite <- app_assoc. exact ND.
      + rewrite <- app_assoc. exact PD.
      + exists ps''. rewrite <- app_assoc in I''. auto.
  Qed.

  (* ---- the state after the last blinder *)
  Definition pexplicit (o : pout) : Prop :=
    po_blinding_key o = None /\ exists a v, po_asset o = Some a /\ po_amount o = Some v /\ 0 < v < qn
      /\ po_asset_comm o = None /\ po_amount_comm o = None /\ po_rp o = None /\ po_sp o = None /\ po_ecdh o = None.
  Definition final_state (all : list party) (outs' : list pout) : Prop :=
    length outs' = length outs0
    /\ (forall j o0, nth_error outs0 j = Some o0 -> exists o, nth_error outs' j = Some o
          /\ ((forall P, In P all -> owned_by (fst P) o0 = false) -> o = o0)
          /\ (forall P, In P all -> owned_by (fst P) o0 = true -> blinded_form pubk ecdh (party_tg ins (fst P)) o0 o))
    /\ eqn (zsum (map (fun P => Isum (fst P)) all)) (Osum outs' (didx all)).

  Theorem flow_final l L :
    (forall P, In P l -> party_ok 0 P) -> party_ok 1 L -> NoDup (l ++ [L]) -> pairwise_disjoint (l ++ [L]) ->
    Forall (fun o => po_blinding_key o = None -> po_amount o <> None) outs0 ->
    exists outs' bl, run_flow pubk ecdh hop p (mkPset ins outs0 []) l L = OVal (mkPset ins outs' [], bl) /\ final_state (l ++ [L]) outs'.
  Proof.
    intros OKs (OKL & NEL & GL & RLL & RZL) ND PD FA.
    assert (I0 : Inv (mkPset ins outs0 []) []).
    { split; [reflexivity|]. split; [reflexivity|]. split; [|reflexivity].
      intros j o0 N0. exists o0. split; [exact N0|]. split; [reflexivity|]. intros P []. }
    destruct (run_nonlast_ok l [] _ I0 OKs) as (ps1 & R1 & I1); cbn [app]; [exact (proj1 (NoDup_app_iff' _ _ ND))| |].
    { intros P Q IP IQ. apply PD; apply in_or_app; now left. }
    cbn [app] in I1. unfold run_flow. rewrite R1. cbn [obind]. pose proof I1 as (J1 & J2 & J3 & J4).
    pose proof (Inv_idx ps1 l (fst L) I1) as EIX. fold (pidx L) in EIX.
    assert (DJ : forall Q, In Q l -> out_disjoint L Q).
    { intros Q IQ. apply PD; [apply in_or_app; right; now left|apply in_or_app; now left|].
      intros ->. apply NoDup_remove_2 in ND. rewrite app_nil_r in ND. contradiction. }
    assert (UNCH : forall i, In i (pidx L) -> forall o0, nth_error outs0 i = Some o0 -> nth_error (ps_out ps1) i = Some o0).
    { intros i II o0 N0. destruct (J3 i o0 N0) as (o & N & U & _). rewrite N. f_equal. apply U. intros Q IQ.
      destruct (owned_by (fst Q) o0) eqn:OB; [|reflexivity]. exfalso. apply (DJ Q IQ o0 (nth_error_In _ _ N0)); [|exact OB].
      apply owned_idx_spec in II as (_ & o' & N' & OB'). rewrite Nat.sub_0_r, N0 in N'. now injection N' as <-. }
    destruct (last_char ps1 (fst L) (snd L) J1 OKL (Inv_indices ps1 l I1)) as (outs' & bl & rnd' & BL & LL & U & F & EQ);
      try rewrite EIX; try assumption.
    { intros i II. destruct (GL i II) as (o0 & N0 & PG). exists o0. split; [now apply UNCH|exact PG]. }
    { rewrite Forall_forall in *. intros o IN K. apply In_nth_error in IN as (j & N).
      assert (LJ : (j < length outs0)%nat) by (rewrite <- J2; apply nth_error_Some; congruence).
      destruct (nth_error outs0 j) as [o0|] eqn:N0; [|apply nth_error_None in N0; lia].
      destruct (Inv_static ps1 l I1 j o0 o N0 N) as (_ & AS & _ & KS & _). rewrite AS. apply (FA o0 (nth_error_In _ _ N0)). congruence. }
    rewrite EIX in U, F, EQ. rewrite BL. cbn [obind]. exists outs', bl. split; [reflexivity|].
    split; [congruence|]. split.
    - intros j o0 N0. destruct (in_dec Nat.eq_dec j (pidx L)) as [IJ|NJ].
      + destruct (F j IJ) as (o & o' & N & N' & BF). rewrite (UNCH j IJ o0 N0) in N. injection N as <-.
        assert (OBP : owned_by (fst L) o0 = true). { apply owned_idx_spec in IJ as (_ & o'' & N'' & OB). rewrite Nat.sub_0_r, N0 in N''. now injection N'' as <-. }
        exists o'. split; [exact N'|]. split.
        * intro H. assert (IPP : In L (l ++ [L])) by (apply in_or_app; right; now left). specialize (H L IPP). congruence.
        * intros Q IQ OBQ. apply in_app_or in IQ as [IQ|[<-|[]]]; [|exact BF]. exfalso. exact (DJ Q IQ o0 (nth_error_In _ _ N0) OBP OBQ).
      + destruct (J3 j o0 N0) as (o & N & UU & BB). exists o. rewrite (U j NJ). split; [exact N|].
        assert (OBP : owned_by (fst L) o0 = false).
        { destruct (owned_by (fst L) o0) eqn:OB; [|reflexivity]. exfalso. apply NJ. apply owned_idx_spec. split; [lia|]. exists o0. rewrite Nat.sub_0_r. auto. }
        split.
        * intro H. apply UU. intros Q IQ. apply H. apply in_or_app. now left.
        * intros Q IQ OBQ. apply in_app_or in IQ as [IQ|[<-|[]]]; [now apply BB|congruence].
    - rewrite map_app, zsum_app. cbn [map zsum fold_right]. unfold didx. rewrite flat_map_app. cbn [flat_map]. rewrite app_nil_r. fold (didx l).
      rewrite Osum_app. rewrite (Osum_ext (ps_out ps1) outs' (didx l)).
      2:{ intros i II. apply U. intro IP. unfold didx in II. apply in_flat_map in II as (Q & IQ & IIQ).
          apply owned_idx_spec in IP as (_ & o1 & N1 & OB1). apply owned_idx_spec in IIQ as (_ & o2 & N2 & OB2). rewrite Nat.sub_0_r in *. rewrite N1 in N2. injection N2 as <-.
          exact (DJ Q IQ o1 (nth_error_In _ _ N1) OB1 OB2). }
      unfold party in *. revert J4 EQ.
      generalize (zsum (ps_scalars ps1)) (zsum (map (fun P0 : list (nat * secrets) * list Z => Isum (fst P0)) l)) (Osum (ps_out ps1) (didx l)) (Isum (fst L)) (Osum outs' (pidx L)).
      intros A1 A2 A3 A4 A5 J4 EQ. unfold zadd. rewrite Z.add_0_r. repeat match goal with |- context [(?a mod qn)%Z] => rewrite (mod_eqn a) end.
      rewrite EQ, J4. unfold eqn. f_equal. ring.
  Qed.

  (* ================================================================== the extracted transaction verifies *)
  Definition fsec (o : pout) : secrets :=
    match po_rp o, po_asset o, po_amount o with
    | Some _, _, _ => osec_of o
    | None, Some a, Some v => mkSec a 0 v 0
    | _, _, _ => mkSec 0 0 0 0 end.
  Definition final_rel (all : list party) (o0 o : pout) : Prop :=
    (pexplicit o0 /\ o = o0) \/ (exists P, In P all /\ blinded_form pubk ecdh (party_tg ins (fst P)) o0 o).
  Definition ptotal (b : N) (outs : list pout) : Z :=
    isum (map (fun o => match po_asset o, po_amount o with Some a, Some v => if N.eqb b a then v else 0 | _, _ => 0 end) outs).

  Lemma blinded_as_extract tgx o0 s esk j bf rk : po_blinding_key o0 = Some rk ->
    extract_outputs [blinded_as pubk ecdh tgx o0 s esk j bf] = OVal [wts_out_g pubk ecdh (po_script o0) rk esk s (tgens tgx) j bf].
  Proof. intro K. unfold blinded_as. rewrite K. reflexivity. Qed.

  Lemma final_outputs_verify all vdom : (forall P, In P all -> sec_ok (fst P)) -> Forall2 geq vdom (map sgen (all_ss ins SS)) ->
    forall outs outs', Forall2 (final_rel all) outs outs' -> forall k,
    exists touts cs, extract_outputs outs' = OVal touts /\ verify_outputs vdom touts k = OVal (map Some cs)
      /\ Forall2 geq cs (map scommit (map fsec outs')) /\ (forall b, asset_total b (map fsec outs') = ptotal b outs)
      /\ length touts = length outs'.
  Proof.
    intros OKs D. induction 1 as [|o0 o outs outs' R F IH]; intro k.
    - exists [], []. repeat split; try constructor.
    - destruct (IH (S k)) as (touts & cs & EX & VO & CS & AT & LT). cbn [map].
      destruct R as [[(K & a & v & A & V & RV & AC & VC & RP & SP & EC) ->]|(P & IP & BF)].
      + exists (mkOut (AExp a) (VExp v) NNull (po_script o0) None None :: touts), (commit v (gH a) 0 :: cs).
        cbn [extract_outputs]. rewrite AC, VC, A, V, EC, RP, SP, EX. cbn [obind]. split; [reflexivity|].
        cbn [verify_outputs]. rewrite (step_live vdom k (mkOut (AExp a) (VExp v) NNull (po_script o0) None None) (commit v (gH a) 0)).
        2:{ apply (skipped_nonzero (mkOut (AExp a) (VExp v) NNull (po_script o0) None None) v); [reflexivity|lia]. }
        2:{ unfold verify_output, get_value_commit, get_asset_gen. cbn [o_value o_asset o_script o_rp o_sp].
            destruct (Z.eqb_spec v 0) as [Z0|_]; [lia|]. cbn [obind map_err]. rewrite pedersen_unblinded_H by exact RV. reflexivity. }
        cbn [obind]. rewrite VO. cbn [obind map].
        split; [reflexivity|]. unfold fsec at 1. rewrite RP, A, V. split; [constructor; [apply scommit_iss|exact CS]|]. split; [|cbn; congruence].
        intro b. unfold asset_total, ptotal in *. cbn [map isum fold_right s_asset s_value]. fold isum. specialize (AT b). unfold isum in AT. rewrite AT, A, V. unfold fsec. rewrite RP, A, V. reflexivity.
      + destruct BF as (s & esk & j & bf & A & V & Zabf & RV & FT & KN & ->).
        destruct (po_blinding_key o0) as [rk|] eqn:K; [|congruence].
        destruct (party_targets (fst P) (OKs P IP)) as (sis & SI & ST & DP & _).
        assert (TO : tg_ok (party_tg ins (fst P))) by (eapply surjection_targets_ok, ST).
        assert (DV : Forall2 geq vdom (tgens (party_tg ins (fst P)))).
        { clear -D DP. revert D DP. generalize (map sgen (all_ss ins SS)) (tgens (party_tg ins (fst P))). intros m t D. revert t.
          induction D as [|x y l l' E D IH]; intros t DP; inversion DP; subst; constructor; [etransitivity; eassumption|now apply IH]. }
        exists (wts_out_g pubk ecdh (po_script o0) rk esk s (tgens (party_tg ins (fst P))) j bf :: touts), (scommit s :: cs).
        assert (EXH : extract_outputs (blinded_as pubk ecdh (party_tg ins (fst P)) o0 s esk j bf :: outs') =
                      OVal (wts_out_g pubk ecdh (po_script o0) rk esk s (tgens (party_tg ins (fst P))) j bf :: touts)).
        { unfold blinded_as. rewrite K. cbn [extract_outputs set_blinded wts_out_g po_asset_comm po_amount_comm po_asset po_amount po_ecdh po_script po_rp po_sp o_asset o_value o_nonce o_rp o_sp].
          rewrite EX. reflexivity. }
        split; [exact EXH|]. cbn [verify_outputs]. rewrite (step_live vdom k _ (scommit s) (skipped_conf (wts_out_g pubk ecdh (po_script o0) rk esk s (tgens (party_tg ins (fst P))) j bf) (scommit s) eq_refl) (verify_output_wts_g pubk ecdh vdom k _ rk esk s _ j bf TO DV FT RV)).
        cbn [obind]. rewrite VO. cbn [obind map].
        split; [reflexivity|].
        assert (FS : fsec (blinded_as pubk ecdh (party_tg ins (fst P)) o0 s esk j bf) = s).
        { unfold blinded_as. rewrite K. unfold fsec, osec_of. cbn. apply secrets_eta. }
        rewrite FS. split; [constructor; [reflexivity|exact CS]|]. split; [|cbn; congruence].
        intro b. unfold asset_total, ptotal in *. cbn [map isum fold_right]. fold isum. specialize (AT b). unfold isum in AT. rewrite AT, A, V. reflexivity.
  Qed.

  (* ---- bookkeeping: sums over positions *)
  Lemma pointwise_Forall2 {A B} (R : A -> B -> Prop) : forall (l : list A) (l' : list B), length l' = length l ->
    (forall j a, nth_error l j = Some a -> exists b, nth_error l' j = Some b /\ R a b) -> Forall2 R l l'.
  Proof.
    induction l as [|a l IH]; intros [|b l'] L H; cbn in L; try discriminate; constructor.
    - destruct (H 0%nat a eq_refl) as (b' & E & Rab). cbn in E. now injection E as <-.
    - apply IH; [lia|]. intros j x N. exact (H (S j) x N).
  Qed.
  Lemma sum_over_nodup (f : nat -> Z) : forall n (l : list nat), NoDup l -> (forall i, In i l -> (i < n)%nat) ->
    (forall j, (j < n)%nat -> ~ In j l -> f j mod qn = 0) -> zsum (map f (seq 0 n)) = zsum (map f l).
  Proof.
    induction n as [|n IH]; intros l ND B Z0.
    - destruct l as [|x l]; [reflexivity|]. specialize (B x (or_introl eq_refl)). lia.
    - rewrite seq_S, map_app, zsum_app. cbn [Nat.add map zsum fold_right].
      destruct (in_dec Nat.eq_dec n l) as [I|NI].
      + destruct (in_split _ _ I) as (l1 & l2 & ->).
        assert (ND' : NoDup (l1 ++ l2)) by (eapply NoDup_remove_1, ND).
        assert (NI' : ~ In n (l1 ++ l2)) by (eapply NoDup_remove_2, ND).
        rewrite (IH (l1 ++ l2) ND').
        * rewrite !map_app, !zsum_app. cbn [map zsum fold_right]. fold (zsum (map f l2)).
          generalize (zsum (map f l1)) (zsum (map f l2)) (f n). intros. zn_ring.
        * intros i Ii. assert (In i (l1 ++ n :: l2)) by (apply in_app_or in Ii as [?|?]; apply in_or_app; [now left|right; now right]).
          specialize (B i H). assert (i <> n) by (intros ->; contradiction). lia.
        * intros j LJ NJ. apply Z0; [lia|]. intro Ij. apply in_app_or in Ij as [?|[E|?]]; [apply NJ, in_or_app; now left|lia|apply NJ, in_or_app; now right].
      + rewrite (IH l ND).
        * rewrite zadd_0_r, zadd_mod_r. unfold zadd. rewrite <- Zplus_mod_idemp_r, (Z0 n (Nat.lt_succ_diag_r n) NI), Z.add_0_r. apply zsum_mod.
        * intros i Ii. specialize (B i Ii). assert (i <> n) by (intros ->; contradiction). lia.
        * intros j LJ NJ. apply Z0; [lia|exact NJ].
  Qed.

  Lemma NoDup_app_intro {A} (a b : list A) : NoDup a -> NoDup b -> (forall x, In x a -> In x b -> False) -> NoDup (a ++ b).
  Proof.
    induction a as [|x a IH]; cbn [app]; intros Na Nb D; [exact Nb|]. inversion Na as [|? ? NI Na']; subst. constructor.
    - intro I. apply in_app_or in I as [I|I]; [contradiction|]. exact (D x (or_introl eq_refl) I).
    - apply IH; [exact Na'|exact Nb|]. intros y Ia Ib. exact (D y (or_intror Ia) Ib).
  Qed.
  Lemma didx_spec all i : In i (didx all) <-> exists P o, In P all /\ nth_error outs0 i = Some o /\ owned_by (fst P) o = true.
  Proof.
    unfold didx. rewrite in_flat_map. split.
    - intros (P & IP & II). apply owned_idx_spec in II as (_ & o & N & OB). rewrite Nat.sub_0_r in N. now exists P, o.
    - intros (P & o & IP & N & OB). exists P. split; [exact IP|]. apply owned_idx_spec. split; [lia|]. exists o. rewrite Nat.sub_0_r. auto.
  Qed.
  Lemma NoDup_didx all : NoDup all -> pairwise_disjoint all -> NoDup (didx all).
  Proof.
    induction all as [|P r IH]; intros ND PD; cbn [didx flat_map]; [constructor|]. inversion ND as [|? ? NI ND']; subst.
    apply NoDup_app_intro; [apply owned_idx_nodup|apply IH; [exact ND'|]|].
    - intros A B IA IB NE. apply PD; [now right|now right|exact NE].
    - intros i I1 I2. apply owned_idx_spec in I1 as (_ & o & N & OB). rewrite Nat.sub_0_r in N.
      apply (didx_spec r i) in I2 as (Q & o' & IQ & N' & OB'). rewrite N in N'. injection N' as <-.
      assert (NE : P <> Q) by (intros ->; contradiction).
      exact (PD P Q (or_introl eq_refl) (or_intror IQ) NE o (nth_error_In _ _ N) OB OB').
  Qed.
  Lemma svb_zero_bf a v : svb (mkSec a 0 v 0) = 0.
  Proof. unfold svb, vb. cbn. unfold zadd, zmul. rewrite Z.mul_0_r. reflexivity. Qed.
  Lemma zsum_all_ss : forall ins' SS' utxos', Forall3 in_ok ins' SS' utxos' -> zsum (map svb (all_ss ins' SS')) = zsum (map svb SS').
  Proof.
    induction 1 as [|i s u ins' SS' utxos' (_ & _ & _ & IO) F IH]; cbn [all_ss map zsum fold_right]; [reflexivity|].
    fold (zsum (map svb SS')). rewrite map_app, zsum_app, IH.
    assert (Z0 : zsum (map svb (iss_secrets (mk_in i))) = 0).
    { unfold iss_secrets. destruct (has_issuance (mk_in i)); [|reflexivity].
      destruct (is_amount (in_iss (mk_in i))), (is_keys (in_iss (mk_in i))); cbn [app map zsum fold_right]; rewrite ?svb_zero_bf; reflexivity. }
    rewrite Z0, zadd_0_l, zsum_mod. reflexivity.
  Qed.
  Lemma Isum_total all : zsum (map (fun P : party => Isum (fst P)) all) = zsum (map svb (flat_map (fun P : party => map snd (fst P)) all)).
  Proof.
    induction all as [|P r IH]; cbn [map flat_map zsum fold_right]; [reflexivity|].
    fold (zsum (map (fun P : party => Isum (fst P)) r)). rewrite map_app, zsum_app, IH. reflexivity.
  Qed.
  Lemma map_seq_nth {A} (g : A -> Z) : forall (l : list A) k,
    map g l = map (fun i => match nth_error l (i - k) with Some o => g o | None => 0 end) (seq k (length l)).
  Proof.
    induction l as [|a l IH]; intro k; cbn [length seq map]; [reflexivity|]. rewrite Nat.sub_diag. cbn [nth_error]. f_equal.
    rewrite (IH (S k)). apply map_ext_in. intros i I. apply in_seq in I. replace (i - k)%nat with (S (i - S k)) by lia. reflexivity.
  Qed.
  Lemma eqn_zsum a b : eqn (zsum a) (zsum b) -> zsum a = zsum b.
  Proof. unfold eqn. now rewrite !zsum_mod. Qed.

  (* facts about one blinded output *)
  Lemma blinded_output_facts tgx o0 o rsk : blinded_form pubk ecdh tgx o0 o -> po_blinding_key o0 = Some (pubk rsk) ->
    (forall a b, ecdh (pubk a) b = ecdh (pubk b) a) ->
    is_fully_blinded o = true
    /\ (exists t s, extract_outputs [o] = OVal [t] /\ unblind ecdh t rsk = OVal s /\ po_asset o0 = Some (s_asset s) /\ po_amount o0 = Some (s_value s)
                   /\ o_asset t = AConf (sgen s) /\ o_value t = VConf (scommit s))
    /\ (exists a v g c bvp bap, po_asset o = Some a /\ po_amount o = Some v /\ po_asset_comm o = Some g /\ po_amount_comm o = Some c
          /\ po_bvp o = Some bvp /\ po_bap o = Some bap /\ blind_value_proof_verify bvp v g c = true /\ blind_asset_proof_verify bap a g = true).
  Proof.
    intros (s & esk & j & bf & A & V & Zabf & RV & FT & KN & ->) K SYM. unfold blinded_as. rewrite K. split; [unfold is_fully_blinded, set_blinded, wts_out_g; cbn; rewrite K; reflexivity|]. split.
    - exists (wts_out_g pubk ecdh (po_script o0) (pubk rsk) esk s (tgens tgx) j bf), s. split; [reflexivity|].
      split; [apply (unblind_wts_g pubk ecdh SYM); assumption|]. repeat split; assumption.
    - unfold blind_value_proof, blind_asset_proof, sp_new. cbn [find_tag]. rewrite N.eqb_refl.
      eexists _, _, _, _, _, _. cbn [set_blinded po_asset po_amount po_asset_comm po_amount_comm po_bvp po_bap wts_out_g o_asset o_value].
      split; [exact A|]. split; [exact V|]. split; [reflexivity|]. split; [reflexivity|]. split; [reflexivity|]. split; [reflexivity|]. split.
      + unfold blind_value_proof_verify, rp_verify. cbn [rp_intact rp_commit rp_script rp_gen rp_value rp_vbf]. rewrite !geqb_refl, Z.eqb_refl. cbn [bytes_eqb andb].
        rewrite andb_true_r. unfold I64_MAX in RV. apply andb_true_iff. split; [apply Z.leb_le|apply Z.ltb_lt]; lia.
      + unfold blind_asset_proof_verify, sp_verify. cbn [sp_intact sp_gen sp_domain sp_idx sp_diff map fst nth_error geqb_list]. unfold sgen. rewrite !geqb_refl. cbn [andb].
        apply geqb_spec. intro k. unfold asset_gen. rewrite !coeff_add, !coeff_scale, coeff_G, coeff_H. destruct (N.eqb k (kH (s_asset s))), (N.eqb k kG); zn_ring.
  Qed.

  (* ================================================================== C09: every order balances *)
  Definition outputs_assigned (all : list party) : Prop :=
    Forall (fun o0 => pexplicit o0 \/ exists P, In P all /\ owned_by (fst P) o0 = true) outs0.
  Definition flow_ok (l : list party) (L : party) : Prop :=
    (forall P, In P l -> party_ok 0 P) /\ party_ok 1 L /\ NoDup (l ++ [L]) /\ pairwise_disjoint (l ++ [L])
    /\ outputs_assigned (l ++ [L])
    /\ Permutation (flat_map (fun P : party => map snd (fst P)) (l ++ [L])) SS     (* the parties' secrets are those of all inputs, each once *)
    /\ (forall b, asset_total b (all_ss ins SS) = ptotal b outs0).                  (* per asset: inputs + issuances = outputs *)

  Theorem flow_verifies l L : flow_ok l L -> (forall a b, ecdh (pubk a) b = ecdh (pubk b) a) ->
    exists psf bl t,
      run_flow pubk ecdh hop p (mkPset ins outs0 []) l L = OVal (psf, bl)
      /\ ps_scalars psf = []
      /\ extract_tx psf = OVal t /\ verify_tx_amt_proofs t utxos = OVal tt
      /\ length (ps_out psf) = length outs0 /\ length (t_out t) = length outs0
      /\ forall j o0 rsk, nth_error outs0 j = Some o0 -> po_blinding_key o0 = Some (pubk rsk) ->
           exists o tj s, nth_error (ps_out psf) j = Some o /\ nth_error (t_out t) j = Some tj
             /\ is_fully_blinded o = true
             /\ unblind ecdh tj rsk = OVal s /\ po_asset o0 = Some (s_asset s) /\ po_amount o0 = Some (s_value s)
             /\ o_asset tj = AConf (sgen s) /\ o_value tj = VConf (scommit s)
             /\ (exists a v g c bvp bap, po_asset o = Some a /\ po_amount o = Some v /\ po_asset_comm o = Some g /\ po_amount_comm o = Some c
                   /\ po_bvp o = Some bvp /\ po_bap o = Some bap /\ blind_value_proof_verify bvp v g c = true /\ blind_asset_proof_verify bap a g = true).
  Proof.
    intros (OKs & OKL & ND & PD & OUT & PERM & BAL) SYM. set (all := l ++ [L]) in *.
    assert (FA : Forall (fun o => po_blinding_key o = None -> po_amount o <> None) outs0).
    { unfold outputs_assigned in OUT. rewrite Forall_forall in *. intros o I K. destruct (OUT o I) as [(_ & a & v & _ & V & _)|(P & _ & OB)].
      - rewrite V. discriminate. - unfold owned_by in OB. rewrite K in OB. discriminate. }
    destruct (flow_final l L OKs OKL ND PD FA) as (outs' & bl & RF & LF & PW & GB). fold all in PW, GB.
    assert (SOK : forall P, In P all -> sec_ok (fst P)).
    { intros P IP. apply in_app_or in IP as [IP|[<-|[]]]; [apply (OKs P IP)|apply OKL]. }
    assert (FR : Forall2 (final_rel all) outs0 outs').
    { apply pointwise_Forall2; [exact LF|]. intros j o0 N0. destruct (PW j o0 N0) as (o & N & U & B). exists o. split; [exact N|].
      unfold outputs_assigned in OUT. rewrite Forall_forall in OUT. destruct (OUT o0 (nth_error_In _ _ N0)) as [PE|(P & IP & OB)].
      - left. split; [exact PE|]. apply U. intros P IP. unfold owned_by. destruct PE as (K & _). now rewrite K.
      - right. exists P. split; [exact IP|]. now apply B. }
    destruct (verify_inputs_ok _ _ _ (in_ok_opens _ _ _ INS) 0%nat) as (vdom & vcoms & VI & VD & VC).
    destruct (final_outputs_verify all vdom SOK VD outs0 outs' FR 0%nat) as (touts & cs & EX & VO & CS & AT & LT).
    exists (mkPset ins outs' []), bl, (mkTx (map mk_in ins) touts).
    split; [exact RF|]. split; [reflexivity|]. split; [unfold extract_tx; cbn [ps_out ps_in]; rewrite EX; reflexivity|]. split.
    - apply verify_ok_inv. cbn [t_in t_out]. split; [rewrite map_length; destruct (Forall3_length _ _ _ _ INS) as [_ LU]; exact LU|].
      exists vdom, vcoms, (map Some cs). split; [exact VI|]. split; [exact VO|]. rewrite map_map. cbn [oc2g]. rewrite map_id. intro k.
      rewrite (coeff_gsum_geq vcoms _ k VC), (coeff_gsum_geq cs _ k CS).
      destruct (bkey_cases k) as [->|(b & ->)].
      + rewrite !zsum_G_total. rewrite (zsum_all_ss _ _ _ INS). rewrite <- (zsum_perm _ _ (Permutation_map svb PERM)), <- Isum_total.
        apply eqn_zsum. rewrite GB.
        (* the G-sum over all outputs is the sum over the blinded positions *)
        unfold Osum.
        rewrite <- (sum_over_nodup (fun i => match nth_error outs' i with Some o => svb (osec_of o) | None => 0 end) (length outs') (didx all)).
        * assert (E : map svb (map fsec outs') = map (fun o => svb (osec_of o)) outs').
          { rewrite map_map. clear -FR. induction FR as [|o0 o a b R F IH]; cbn [map]; [reflexivity|]. rewrite IH. f_equal.
            destruct R as [[(K & x & v & A & V & RV & AC & VC & RP & SP & EC) ->]|(P & IP & (s & esk & j & bf & A & V & Zabf & RV & FT & KN & ->))].
            - unfold fsec, osec_of. rewrite RP, A, V. rewrite svb_zero_bf. reflexivity.
            - unfold blinded_as. destruct (po_blinding_key o0); [|congruence]. reflexivity. }
          rewrite E, (map_seq_nth (fun o => svb (osec_of o)) outs' 0%nat). unfold eqn. f_equal. f_equal. apply map_ext. intro i. now rewrite Nat.sub_0_r.
        * apply NoDup_didx; assumption.
        * intros i I. apply (didx_spec all i) in I as (P & o & _ & N & _). rewrite LF. apply nth_error_Some. congruence.
        * intros j LJ NJ. rewrite LF in LJ. destruct (nth_error outs0 j) as [o0|] eqn:N0; [|apply nth_error_None in N0; lia].
          destruct (PW j o0 N0) as (o & N & U & _). rewrite N.
          assert (UO : forall P, In P all -> owned_by (fst P) o0 = false).
          { intros P IP. destruct (owned_by (fst P) o0) eqn:OB; [|reflexivity]. exfalso. apply NJ. apply didx_spec. now exists P, o0. }
          rewrite (U UO). unfold outputs_assigned in OUT. rewrite Forall_forall in OUT. destruct (OUT o0 (nth_error_In _ _ N0)) as [(K & x & v & A & V & RV & AC & VC0 & RP & SP & EC)|(P & IP & OB)].
          -- unfold osec_of. rewrite RP. reflexivity.
          -- rewrite (UO P IP) in OB. discriminate.
      + rewrite !zsum_H_total. f_equal. rewrite AT. apply BAL.
    - split; [exact LF|]. split; [cbn [t_out]; congruence|].
      intros j o0 rsk N0 K. destruct (PW j o0 N0) as (o & N & U & B).
      assert (FRj : final_rel all o0 o).
      { clear -FR N0 N. revert j N0 N. induction FR as [|a b la lb R F IH]; intros [|j] N0 N; cbn in *; try discriminate.
        - injection N0 as <-. injection N as <-. exact R. - eapply IH; eassumption. }
      destruct FRj as [[(KE & _) _]|(P & IP & BF)]; [congruence|].
      destruct (blinded_output_facts _ o0 o rsk BF K SYM) as (FB & (tj & s & EXj & UB & A & V & OA & OV) & PR).
      assert (NT : nth_error touts j = Some tj).
      { clear -EX EXj N. revert touts j EX N. induction outs' as [|x r IH]; intros touts [|j] EX N; cbn [nth_error] in N; try discriminate.
        - injection N as ->. cbn [extract_outputs] in EX, EXj.
          destruct (match po_asset_comm o, po_asset o with Some g, _ => Some (AConf g) | None, Some a => Some (AExp a) | None, None => None end); [|discriminate].
          destruct (match po_amount_comm o, po_amount o with Some c, _ => Some (VConf c) | None, Some v => Some (VExp v) | None, None => None end); [|discriminate].
          cbn [obind] in EXj. injection EXj as <-. destruct (extract_outputs r); cbn [obind] in EX; try discriminate. injection EX as <-. reflexivity.
        - cbn [extract_outputs] in EX.
          destruct (match po_asset_comm x, po_asset x with Some g, _ => Some (AConf g) | None, Some a => Some (AExp a) | None, None => None end); [|discriminate].
          destruct (match po_amount_comm x, po_amount x with Some c, _ => Some (VConf c) | None, Some v => Some (VExp v) | None, None => None end); [|discriminate].
          destruct (extract_outputs r) as [tr| |] eqn:ER; cbn [obind] in EX; try discriminate. injection EX as <-. cbn [nth_error]. exact (IH tr j eq_refl N). }
      exists o, tj, s. cbn [ps_out t_out]. repeat split; try assumption.
  Qed.
End Flow.

(* ================================================================== order independence *)
Lemma flow_ok_perm ins SS outs0 l sigma L : Permutation sigma l -> flow_ok ins SS outs0 l L -> flow_ok ins SS outs0 sigma L.
Proof.
  intros PM (OKs & OKL & ND & PD & OUT & PERM & BAL).
  assert (PA : Permutation (sigma ++ [L]) (l ++ [L])) by (apply Permutation_app_tail; exact PM).
  split; [intros P IP; apply OKs; eapply Permutation_in; eassumption|]. split; [exact OKL|].
  split; [eapply Permutation_NoDup; [apply Permutation_sym; exact PA|exact ND]|].
  split; [intros P Q IP IQ; apply PD; eapply Permutation_in; eassumption|].
  split; [|split; [|exact BAL]].
  - unfold outputs_assigned in *. rewrite Forall_forall in *. intros o I. destruct (OUT o I) as [E|(P & IP & OB)]; [now left|right].
    exists P. split; [|exact OB]. eapply Permutation_in; [apply Permutation_sym; exact PA|exact IP].
  - eapply Permutation_trans; [|exact PERM]. apply Permutation_flat_map. exact PA.
Qed.

(* the published scalar of a non-last blinder: (its inputs) - (the outputs it blinded), in v·abf + vbf terms *)
Lemma scalar_meaning pubk ecdh p ins SS utxos : Forall3 in_ok ins SS utxos -> issuances_unblinded ins ->
  (N.of_nat (length (all_ss ins SS)) <= CT_SURJECTIONPROOF_MAX_N_INPUTS)%N ->
  forall ps sec rnd, ps_in ps = ins -> sec_ok SS sec -> indices_ok (length ins) (ps_out ps) ->
  (forall i, In i (owned_idx sec (ps_out ps) 0) -> exists o, nth_error (ps_out ps) i = Some o /\ pgood (party_tg ins sec) o) ->
  (3 * length (owned_idx sec (ps_out ps) 0) <= length rnd)%nat -> Forall in_zn rnd -> owned_idx sec (ps_out ps) 0 <> [] ->
  exists outs' bl rnd',
    blind_non_last pubk ecdh p ps sec rnd =
      OVal (mkPset ins outs' (ps_scalars ps ++ [zsub (Isum sec) (Osum outs' (owned_idx sec (ps_out ps) 0))]), bl, rnd')
    /\ Forall2 (fun i r => fst r = i /\ exists o', nth_error outs' i = Some o' /\ fst (fst (snd r)) = s_abf (osec_of o') /\ snd (fst (snd r)) = s_vbf (osec_of o'))
         (owned_idx sec (ps_out ps) 0) bl.
Proof.
  intros INS ISS DOM ps sec rnd EI OK IO G RL RZ NE.
  destruct (non_last_char pubk ecdh p ins SS utxos INS ISS DOM ps sec rnd EI OK IO G RL RZ) as (outs' & bl & rnd' & BN & _ & _ & _ & _ & _ & R).
  exists outs', bl, rnd'. split; [|exact R]. rewrite BN. destruct (owned_idx sec (ps_out ps) 0); [contradiction|reflexivity].
Qed.

(* a surjection domain larger than Asset::blind accepts: a non-last blinder with something to blind is refused at its first output *)
Lemma non_last_over_limit pubk ecdh p ins SS utxos : Forall3 in_ok ins SS utxos -> issuances_unblinded ins ->
  (CT_SURJECTIONPROOF_MAX_N_INPUTS < N.of_nat (length (all_ss ins SS)))%N ->
  forall ps sec rnd, ps_in ps = ins -> sec_ok SS sec -> indices_ok (length ins) (ps_out ps) ->
  (forall i, In i (owned_idx sec (ps_out ps) 0) -> exists o, nth_error (ps_out ps) i = Some o /\ pgood (party_tg ins sec) o) ->
  (3 <= length rnd)%nat ->
  forall i0 rest, owned_idx sec (ps_out ps) 0 = i0 :: rest ->
  blind_non_last pubk ecdh p ps sec rnd = OFail (PConfidentialTxOutError i0 BCannotProveSurjection).
Proof.
  intros INS ISS OV ps sec rnd EI OK IO G RL i0 rest EIDX.
  unfold blind_non_last, blind_checks. rewrite EI, (check_issuances_ok _ _ ISS). cbn [obind].
  rewrite (outs_to_blind_eq _ _ _ _ IO). cbn [obind]. rewrite EIDX.
  destruct (party_targets ins SS utxos INS sec OK) as (sis & SI & ST & _ & _). rewrite SI. cbn [obind blind_each].
  destruct (G i0) as (o & NE & (a & v & rk & A & V & K & R & (ad & AD) & H & AC & VC)); [rewrite EIDX; now left|].
  unfold blind_one. rewrite NE, K. cbn [opt_err obind].
  unfold to_non_last_confidential, to_txout. rewrite AC, VC, A, V. cbn [o_value o_asset o_script].
  rewrite (address_spk_ok p _ ad AD). cbn [obind]. unfold new_not_last_confidential.
  destruct rnd as [|x1 [|x2 [|x3 rnd']]]; cbn [length] in RL; try lia. cbn [draw obind].
  rewrite (wts_over_limit_g pubk ecdh _ _ _ _ sis _ ST); [reflexivity|].
  rewrite (party_tg_length ins SS utxos INS sec OK). exact OV.
Qed.
