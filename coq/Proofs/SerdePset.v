(* Lawfulness of the codec combinators of Model/SerdePset.v and of the PSET codecs assembled from the regenerated field tables. *)
From Coq Require Import List NArith ZArith Bool Lia ZifyN ZifyBool ZifyNat.
From Coq.Strings Require Import Byte.
From EV Require Import Base.Bytes Base.Codec Gen.Tables Model.Tx Model.Block Model.Text Model.Serde Model.SerdePset
  Proofs.Tx Proofs.Text Proofs.Serde Proofs.SerdeBridge.
Import ListNotations.
Ltac Zify.zify_post_hook ::= Z.div_mod_to_equations.
Open Scope N_scope.
Local Opaque tweak_ok rangeproof_ok surjproof_ok.

Definition SLawful (c : scodec) : Prop := forall hr x, s_wf c x = true -> s_de c hr (view hr (s_ser c hr x)) = Ok x.
Definition SNonNull (c : scodec) : Prop := forall hr x, s_wf c x = true -> view hr (s_ser c hr x) <> VUnit.

Lemma view_map hr l : view hr (VMap l) = VMap (map (fun kv => (view hr (fst kv), view hr (snd kv))) l). Proof. now destruct hr. Qed.
Lemma view_bytes_cbor b : view false (VBytes b) = VBytes b. Proof. reflexivity. Qed.

(* ---------- leaves ---------- *)
Lemma sc_bytes_lawful ser de wf : (forall hr b, wf b = true -> de hr (view hr (ser hr b)) = Ok b) -> SLawful (sc_bytes ser de wf).
Proof. intros H hr x W. destruct x; cbn in W; try discriminate. cbn. now rewrite H. Qed.
Lemma sc_bytes_nonnull ser de wf : (forall hr b, wf b = true -> view hr (ser hr b) <> VUnit) -> SNonNull (sc_bytes ser de wf).
Proof. intros H hr x W. destruct x; cbn in W; try discriminate. cbn. now apply H. Qed.
Lemma sc_num_lawful ser de wf : (forall hr n, wf n = true -> de hr (view hr (ser hr n)) = Ok n) -> SLawful (sc_num ser de wf).
Proof. intros H hr x W. destruct x; cbn in W; try discriminate. cbn. now rewrite H. Qed.
Lemma sc_num_nonnull ser de wf : (forall hr n, wf n = true -> view hr (ser hr n) <> VUnit) -> SNonNull (sc_num ser de wf).
Proof. intros H hr x W. destruct x; cbn in W; try discriminate. cbn. now apply H. Qed.

Ltac nn := intros hr ? _; destruct hr; cbn; discriminate.
Lemma uint_lawful bound : SLawful (sc_uint bound).
Proof. apply sc_num_lawful. intros hr n W. views. apply de_u_ok. now apply N.ltb_lt. Qed.
Lemma uint_nonnull bound : SNonNull (sc_uint bound). Proof. apply sc_num_nonnull. nn. Qed.
Lemma vecu8_lawful : SLawful sc_vecu8. Proof. apply sc_bytes_lawful. intros. apply rt_vecu8. Qed.
Lemma vecu8_nonnull : SNonNull sc_vecu8. Proof. apply sc_bytes_nonnull. nn. Qed.
Lemma hexbytes_lawful : SLawful sc_hexbytes.
Proof. apply sc_bytes_lawful. intros hr b _. destruct hr; [cbn; apply hex_decode_var_ok|apply rt_vecu8]. Qed.
Lemma hexbytes_nonnull : SNonNull sc_hexbytes. Proof. apply sc_bytes_nonnull. nn. Qed.
Lemma hexstr_lawful : SLawful sc_hexstr. Proof. apply sc_bytes_lawful. intros hr b _. views. apply hex_decode_var_ok. Qed.
Lemma hexstr_or_bytes_lawful : SLawful sc_hexstr_or_bytes. Proof. apply sc_bytes_lawful. intros hr b _. views. apply hex_decode_var_ok. Qed.
Lemma array32_lawful : SLawful sc_array32. Proof. apply sc_bytes_lawful. intros hr b W. apply rt_array. now apply len_is_eq. Qed.
Lemma array32_nonnull : SNonNull sc_array32. Proof. apply sc_bytes_nonnull. nn. Qed.
Lemma script_lawful : SLawful sc_script. Proof. apply sc_bytes_lawful. intros. apply rt_script. Qed.
Lemma script_nonnull : SNonNull sc_script. Proof. apply sc_bytes_nonnull. nn. Qed.
Lemma hash_lawful len r : SLawful (sc_hash len r r).
Proof. apply sc_bytes_lawful. intros hr b W. apply rt_hash. now apply N.eqb_eq. Qed.
Lemma hash_nonnull len db pb : SNonNull (sc_hash len db pb). Proof. apply sc_bytes_nonnull. nn. Qed.
Lemma midstate_lawful : SLawful sc_midstate. Proof. apply sc_bytes_lawful. intros hr b W. apply rt_midstate. now apply len_is_eq. Qed.
Lemma midstate_nonnull : SNonNull sc_midstate. Proof. apply sc_bytes_nonnull. nn. Qed.
Lemma tweak_lawful : SLawful sc_tweak.
Proof. apply sc_bytes_lawful. intros hr b W. apply andb_prop in W as [L T]. apply rt_tweak; [now apply len_is_eq|exact T]. Qed.
Lemma tweak_nonnull : SNonNull sc_tweak. Proof. apply sc_bytes_nonnull. nn. Qed.
Lemma sequence_lawful : SLawful sc_sequence.
Proof. apply sc_num_lawful. intros hr n W. unfold ser_sequence, de_sequence. views. apply de_u_ok. now apply N.ltb_lt. Qed.
Lemma sequence_nonnull : SNonNull sc_sequence. Proof. apply sc_num_nonnull. nn. Qed.
Lemma height_lawful : SLawful sc_height.
Proof. apply sc_num_lawful. intros hr n W. views. unfold de_height. apply N.ltb_lt in W.
  assert (T : C20_LOCK_TIME_THRESHOLD <= u32_bound) by (vm_compute; discriminate). rewrite de_u_ok by lia. cbn [rbind].
  destruct (N.ltb_spec n C20_LOCK_TIME_THRESHOLD); [reflexivity|lia]. Qed.
Lemma height_nonnull : SNonNull sc_height. Proof. apply sc_num_nonnull. nn. Qed.
Lemma time_lawful : SLawful sc_time.
Proof. apply sc_num_lawful. intros hr n W. views. unfold de_time. apply andb_prop in W as [W1 W2]. apply N.leb_le in W1. apply N.ltb_lt in W2.
  rewrite de_u_ok by exact W2. cbn [rbind]. destruct (N.leb_spec C20_LOCK_TIME_THRESHOLD n); [reflexivity|lia]. Qed.
Lemma time_nonnull : SNonNull sc_time. Proof. apply sc_num_nonnull. nn. Qed.
Lemma locktime_lawful : SLawful sc_locktime.
Proof. apply sc_num_lawful. intros hr n W. apply N.ltb_lt in W. rewrite rt_locktime by (now apply locktime_from_consensus_wf). cbn [rbind].
  now rewrite locktime_consensus_rt. Qed.
Lemma locktime_nonnull : SNonNull sc_locktime.
Proof. apply sc_num_nonnull. intros hr n _. unfold ser_locktime, locktime_from_consensus. destruct (n <? C20_LOCK_TIME_THRESHOLD); destruct hr; cbn; discriminate. Qed.
Lemma psbt_sighash_lawful : SLawful sc_psbt_sighash.
Proof. apply sc_num_lawful. intros hr n W. apply rt_string. apply parse_print_psbt. now apply N.ltb_lt. Qed.
Lemma psbt_sighash_nonnull : SNonNull sc_psbt_sighash. Proof. apply sc_num_nonnull. nn. Qed.
Lemma schnorr_sighash_lawful : SLawful sc_schnorr_sighash.
Proof. apply sc_num_lawful. intros hr n W. apply rt_string. now apply parse_print_schnorr. Qed.
Lemma leafver_lawful : SLawful sc_leafver.
Proof. apply sc_num_lawful. intros hr n W. views. assert (L : n < 256) by (unfold leafver_ok in W; apply andb_prop in W as [W _]; apply andb_prop in W as [W _]; now apply N.ltb_lt).
  rewrite de_u_ok by exact L. cbn [rbind]. now rewrite W. Qed.
Lemma leafver_nonnull : SNonNull sc_leafver. Proof. apply sc_num_nonnull. nn. Qed.
Lemma parity_lawful : SLawful sc_parity.
Proof. apply sc_num_lawful. intros hr n W. views. assert (L : n < 2) by (now apply N.ltb_lt). rewrite de_u_ok by lia. cbn [rbind]. now rewrite W. Qed.

(* ---------- combinators ---------- *)
Lemma option_lawful c : SLawful c -> SNonNull c -> SLawful (sc_option c).
Proof. intros L NN hr x W. destruct x as [| | |[y|]| |]; cbn in W; try discriminate; cbn [sc_option s_ser s_de]; views; [|reflexivity].
  specialize (NN hr y W). rewrite (L hr y W). destruct (view hr (s_ser c hr y)); try reflexivity. congruence. Qed.
Lemma de_list_map_ok c hr l : SLawful c -> forallb (s_wf c) l = true -> de_list (s_de c hr) (map (view hr) (map (s_ser c hr) l)) = Ok l.
Proof. intros L. apply (de_list_ok (s_de c hr) (s_ser c hr) (view hr) (s_wf c)). intros x W. now apply L. Qed.
Lemma vec_lawful c : SLawful c -> SLawful (sc_vec c).
Proof. intros L hr x W. destruct x; cbn in W; try discriminate. cbn [sc_vec s_ser s_de]. views. now rewrite de_list_map_ok. Qed.
Lemma vec_nonnull c : SNonNull (sc_vec c). Proof. intros hr x W. destruct x; cbn in W; try discriminate. cbn. views. discriminate. Qed.
Lemma newtype_lawful n c : SLawful c -> SLawful (sc_newtype n c).
Proof. intros L hr x W. cbn [sc_newtype s_ser s_de]. views. now apply L. Qed.
Lemma newtype_nonnull n c : SNonNull c -> SNonNull (sc_newtype n c).
Proof. intros L hr x W. cbn [sc_newtype s_ser]. views. now apply L. Qed.

Lemma de_tuple_ok cs hr : Forall SLawful cs -> forall xs, wf_tuple cs xs = true -> de_tuple cs hr (map (view hr) (ser_tuple cs hr xs)) = Ok xs.
Proof. induction 1 as [|c cs Lc _ IH]; intros [|x xs] W; cbn in W; try discriminate; [reflexivity|].
  apply andb_prop in W as [Wx Wr]. cbn [ser_tuple map de_tuple]. rewrite (Lc hr x Wx). cbn [rbind]. now rewrite (IH xs Wr). Qed.
Lemma tuple_lawful cs : Forall SLawful cs -> SLawful (sc_tuple cs).
Proof. intros L hr x W. destruct x; cbn in W; try discriminate. cbn [sc_tuple s_ser s_de]. views. now rewrite de_tuple_ok. Qed.
Lemma tuple_nonnull cs : SNonNull (sc_tuple cs). Proof. intros hr x W. destruct x; cbn in W; try discriminate. cbn. views. discriminate. Qed.

Lemma de_entries_ok kc vc hr : SLawful kc -> SLawful vc -> forall l, forallb (is_pair kc vc) l = true ->
  de_entries kc vc hr (map (fun kv => (view hr (fst kv), view hr (snd kv))) (ser_entries kc vc hr l)) = Ok l.
Proof. intros Lk Lv. induction l as [|e l IH]; [reflexivity|]. cbn [forallb]. intros W. apply andb_prop in W as [We Wl].
  destruct e as [| | | | |[|k [|v [|w r]]]]; cbn in We; try discriminate. apply andb_prop in We as [Wk Wv].
  cbn [ser_entries map pair_of fst snd de_entries]. rewrite (Lk hr k Wk). cbn [rbind]. rewrite (Lv hr v Wv). cbn [rbind].
  unfold ser_entries in IH. now rewrite (IH Wl). Qed.
Lemma map_lawful kc vc : SLawful kc -> SLawful vc -> SLawful (sc_map kc vc).
Proof. intros Lk Lv hr x W. destruct x; cbn in W; try discriminate. cbn [sc_map s_ser s_de]. rewrite view_map. now rewrite de_entries_ok. Qed.
Lemma map_nonnull kc vc : SNonNull (sc_map kc vc). Proof. intros hr x W. destruct x; cbn in W; try discriminate. cbn [sc_map s_ser]. rewrite view_map. discriminate. Qed.
Lemma is_pair_tuple kc vc l : forallb (is_pair kc vc) l = true -> forallb (s_wf (sc_tuple [kc; vc])) l = true.
Proof. apply forallb_impl. intros e. destruct e as [| | | | |[|k [|v [|w r]]]]; cbn; try discriminate. now rewrite andb_true_r. Qed.
Lemma is_pair_weaken kc vc vc' l : (forall v, s_wf vc v = true -> s_wf vc' v = true) -> forallb (is_pair kc vc) l = true -> forallb (is_pair kc vc') l = true.
Proof. intros H. apply forallb_impl. intros e. destruct e as [| | | | |[|k [|v [|w r]]]]; cbn; try discriminate.
  intros W. apply andb_prop in W as [Wk Wv]. now rewrite Wk, (H v Wv). Qed.
Lemma map_as_seq_lawful kc vc : SLawful kc -> SLawful vc -> SLawful (sc_map_as_seq kc vc).
Proof. intros Lk Lv hr x W. destruct hr.
  - apply (vec_lawful (sc_tuple [kc; vc]) (tuple_lawful _ (Forall_cons _ Lk (Forall_cons _ Lv (Forall_nil _))))).
    destruct x; cbn in W; try discriminate. cbn [sc_vec s_wf]. now apply is_pair_tuple.
  - now apply (map_lawful kc vc Lk Lv). Qed.
Lemma vecu8_wf_hexstr v : s_wf sc_vecu8 v = true -> s_wf sc_hexstr v = true. Proof. auto. Qed.
Lemma vecu8_wf_hexstr2 v : s_wf sc_vecu8 v = true -> s_wf sc_hexstr_or_bytes v = true. Proof. auto. Qed.
Lemma map_byte_values_lawful kc : SLawful kc -> SLawful (sc_map_byte_values kc).
Proof. intros Lk hr x W. destruct hr.
  - apply (map_lawful kc sc_hexstr Lk hexstr_lawful). destruct x; cbn in W; try discriminate. cbn [sc_map s_wf].
    now apply (is_pair_weaken kc sc_vecu8 sc_hexstr l vecu8_wf_hexstr).
  - now apply (map_lawful kc sc_vecu8 Lk vecu8_lawful). Qed.
Lemma map_as_seq_byte_values_lawful kc : SLawful kc -> SLawful (sc_map_as_seq_byte_values kc).
Proof. intros Lk hr x W. destruct hr.
  - apply (vec_lawful (sc_tuple [kc; sc_hexstr_or_bytes]) (tuple_lawful _ (Forall_cons _ Lk (Forall_cons _ hexstr_or_bytes_lawful (Forall_nil _))))).
    destruct x; cbn in W; try discriminate. cbn [sc_vec s_wf]. apply is_pair_tuple.
    now apply (is_pair_weaken kc sc_vecu8 sc_hexstr_or_bytes l vecu8_wf_hexstr2).
  - now apply (map_lawful kc sc_vecu8 Lk vecu8_lawful). Qed.
Lemma map_variants_nonnull kc vc : SNonNull (sc_map_as_seq kc vc) /\ SNonNull (sc_map_byte_values kc) /\ SNonNull (sc_map_as_seq_byte_values kc).
Proof. repeat split; intros hr x W; destruct x; cbn in W; try discriminate; destruct hr; cbn; discriminate. Qed.

(* ---------- derived structs ---------- *)
Definition viewed (hr : bool) (l : list (bytes * sval)) : list (bytes * sval) := map (fun kv => (fst kv, view hr (snd kv))) l.
Lemma str_keys_viewed hr l : str_keys (map (fun kv => (VStr (fst kv), view hr (snd kv))) l) = Ok (viewed hr l).
Proof. induction l as [|[k v] l IH]; [reflexivity|]. cbn [map str_keys fst snd]. rewrite IH. reflexivity. Qed.
Lemma lookup_all_app k a b : lookup_all k (a ++ b) = lookup_all k a ++ lookup_all k b.
Proof. unfold lookup_all. now rewrite filter_app, map_app. Qed.
Lemma lookup_all_absent k l : existsb (bytes_eqb k) (map fst l) = false -> lookup_all k l = [].
Proof. unfold lookup_all. induction l as [|[k' v] l IH]; [reflexivity|]. cbn [map fst existsb filter]. intros H. apply orb_false_elim in H as [H1 H2].
  destruct (bytes_eqb_spec k' k) as [->|]; [rewrite bytes_eqb_refl in H1; discriminate|]. now apply IH. Qed.
Lemma ser_fields_names F hr : forall xs, wf_fields F xs = true -> map fst (viewed hr (ser_fields F hr xs)) = map fst F.
Proof. induction F as [|[n c] F IH]; intros [|x xs] W; cbn in W; try discriminate; [reflexivity|]. apply andb_prop in W as [_ W].
  cbn [ser_fields viewed map fst]. f_equal. now apply IH. Qed.
Lemma existsb_app_false {A} (p : A -> bool) a b : existsb p a = false -> existsb p b = false -> existsb p (a ++ b) = false.
Proof. intros. rewrite existsb_app. now rewrite H, H0. Qed.

Lemma lookup_all_cons_eq k v l : lookup_all k ((k, v) :: l) = v :: lookup_all k l.
Proof. unfold lookup_all. cbn [filter fst]. rewrite bytes_eqb_refl. reflexivity. Qed.
Lemma viewed_cons hr n s l : viewed hr ((n, s) :: l) = (n, view hr s) :: viewed hr l. Proof. reflexivity. Qed.
Lemma de_fields_ok hr : forall F, nodup_names (map fst F) = true -> Forall SLawful (map snd F) ->
  forall xs pre, wf_fields F xs = true -> forallb (fun n => negb (existsb (bytes_eqb n) (map fst pre))) (map fst F) = true ->
  de_fields F hr (pre ++ viewed hr (ser_fields F hr xs)) = Ok xs.
Proof. induction F as [|[n c] F IH]; intros ND L xs pre W D; destruct xs as [|x xs]; cbn in W; try discriminate; [reflexivity|].
  apply andb_prop in W as [Wx Wr]. cbn [map fst nodup_names] in ND. apply andb_prop in ND as [Nn ND]. apply negb_true_iff in Nn.
  cbn [map snd] in L. inversion L as [|? ? Lc LF]; subst. cbn [map fst forallb] in D. apply andb_prop in D as [Dn DF]. apply negb_true_iff in Dn.
  cbn [ser_fields de_fields]. rewrite viewed_cons.
  rewrite lookup_all_app. rewrite (lookup_all_absent n pre Dn). cbn [app]. rewrite lookup_all_cons_eq.
  rewrite lookup_all_absent by (rewrite (ser_fields_names F hr xs Wr); exact Nn).
  rewrite (Lc hr x Wx). cbn [rbind].
  change (pre ++ (n, view hr (s_ser c hr x)) :: viewed hr (ser_fields F hr xs)) with (pre ++ [(n, view hr (s_ser c hr x))] ++ viewed hr (ser_fields F hr xs)).
  rewrite app_assoc. rewrite (IH ND LF xs (pre ++ [(n, view hr (s_ser c hr x))]) Wr); [reflexivity|].
  rewrite forallb_forall in DF |- *. intros m Hm. specialize (DF m Hm). apply negb_true_iff in DF. apply negb_true_iff.
  rewrite map_app. apply existsb_app_false; [exact DF|]. cbn [map fst existsb]. rewrite orb_false_r.
  destruct (bytes_eqb_spec m n) as [->|]; [|reflexivity].
  (* m = n would contradict NoDup *) exfalso. clear - Nn Hm. induction (map fst F) as [|a l IHl]; [contradiction|]. cbn in *. apply orb_false_elim in Nn as [N1 N2].
  destruct Hm as [->|Hm]; [rewrite bytes_eqb_refl in N1; discriminate|now apply IHl]. Qed.
Lemma struct_lawful name F : nodup_names (map fst F) = true -> Forall SLawful (map snd F) -> SLawful (sc_struct name F).
Proof. intros ND L hr x W. destruct x; cbn in W; try discriminate. cbn [sc_struct s_ser s_de]. rewrite view_struct, str_keys_viewed. cbn [rbind].
  pose proof (de_fields_ok hr F ND L l [] W) as D. cbn [app] in D. rewrite D; [reflexivity|]. cbn [map]. apply forallb_forall. intros; reflexivity. Qed.
Lemma struct_nonnull name F : SNonNull (sc_struct name F).
Proof. intros hr x W. destruct x; cbn in W; try discriminate. cbn [sc_struct s_ser]. rewrite view_struct. discriminate. Qed.

Lemma assoc_in {B} k (T : list (bytes * B)) c : assoc k T = Some c -> In (k, c) T.
Proof. induction T as [|[k' c'] T IH]; cbn; [discriminate|]. destruct (bytes_eqb_spec k k') as [->|]; [intros E; inversion E; now left|]. intros H. right. now apply IH. Qed.
Lemma fields_of_lawful (T : ctable) l : Forall (fun kc => SLawful (snd kc)) T -> fields_known T l = true -> Forall SLawful (map snd (fields_of T l)).
Proof. intros LT. induction l as [|[n k] l IH]; [constructor|]. cbn [fields_known forallb snd]. intros K. apply andb_prop in K as [Kk Kl].
  cbn [fields_of map fst snd]. constructor; [|now apply IH]. destruct (assoc k T) as [c|] eqn:E; [|discriminate].
  rewrite Forall_forall in LT. exact (LT _ (assoc_in _ _ _ E)). Qed.
Lemma fields_of_names (T : ctable) l : map fst (fields_of T l) = map fst l.
Proof. unfold fields_of. rewrite map_map. reflexivity. Qed.

(* ---------- the PSET codecs ---------- *)
Section PSETLAW.
Variable pt_ok : bytes -> bool.
Variables maxvec cap_txin cap_txout cap_vecu8 : N.
Variable leaf_ser : bytes -> bool -> bytes -> sval.
Variable leaf_de : bytes -> bool -> sval -> res bytes.
Variable leaf_ok : bytes -> bytes -> bool.
(* premise: the dependency's own Serialize / Deserialize round-trip (checked on the real crate by every `ps` case) *)
Hypothesis leaf_roundtrip : forall kind hr b, leaf_ok kind b = true -> leaf_de kind hr (view hr (leaf_ser kind hr b)) = Ok b.
Hypothesis leaf_not_null : forall kind hr b, leaf_ok kind b = true -> view hr (leaf_ser kind hr b) <> VUnit.

Notation sc_leaf := (sc_leaf leaf_ser leaf_de leaf_ok).
Lemma leaf_lawful kind : SLawful (sc_leaf kind). Proof. apply sc_bytes_lawful. apply leaf_roundtrip. Qed.
Lemma leaf_nonnull kind : SNonNull (sc_leaf kind). Proof. apply sc_bytes_nonnull. apply leaf_not_null. Qed.

Lemma via_codec_lawful {A} (c : codec A) ser de : Lawful c -> (forall hr v, wf c v = true -> de hr (view hr (ser hr v)) = Ok v) -> SLawful (via_codec c ser de).
Proof. intros LC H. apply sc_bytes_lawful. intros hr b W. destruct (deserialize c b) as [v|] eqn:E; [|discriminate].
  destruct (deserialize_exact c LC b v E) as [-> Wv]. rewrite (H hr v Wv). reflexivity. Qed.
Lemma txout_lawful : SLawful (sc_txout pt_ok maxvec).
Proof. apply via_codec_lawful; [apply c_txout_nowit_lawful|]. intros hr v W. apply rt_txout. eapply br_txout; exact W. Qed.
Lemma txout_nonnull : SNonNull (sc_txout pt_ok maxvec).
Proof. apply sc_bytes_nonnull. intros hr b W. destruct (deserialize _ b); [|discriminate]. unfold ser_txout. rewrite view_struct. discriminate. Qed.
Lemma tx_lawful : SLawful (sc_tx pt_ok maxvec cap_txin cap_txout cap_vecu8).
Proof. apply via_codec_lawful; [apply c_tx_lawful|]. intros hr v W. apply rt_tx. eapply br_tx; exact W. Qed.
Lemma tx_nonnull : SNonNull (sc_tx pt_ok maxvec cap_txin cap_txout cap_vecu8).
Proof. apply sc_bytes_nonnull. intros hr b W. destruct (deserialize _ b); [|discriminate]. unfold ser_tx. rewrite view_struct. discriminate. Qed.
Lemma point_lawful lo hi : SLawful (sc_point pt_ok lo hi). Proof. apply sc_bytes_lawful. intros hr b W. now apply rt_point. Qed.
Lemma point_nonnull lo hi : SNonNull (sc_point pt_ok lo hi). Proof. apply sc_bytes_nonnull. nn. Qed.
Lemma proof_lawful ok : SLawful (sc_proof ok).
Proof. apply sc_bytes_lawful. intros hr b W. destruct hr; cbn -[hex_decode_var]; [rewrite hex_decode_var_ok; cbn [rbind]|]; now rewrite W. Qed.
Lemma proof_nonnull ok : SNonNull (sc_proof ok). Proof. apply sc_bytes_nonnull. nn. Qed.

Create HintDb slaw.
Hint Resolve uint_lawful uint_nonnull vecu8_lawful vecu8_nonnull hexbytes_lawful hexbytes_nonnull array32_lawful array32_nonnull script_lawful script_nonnull
  hash_lawful hash_nonnull midstate_lawful midstate_nonnull tweak_lawful tweak_nonnull sequence_lawful sequence_nonnull height_lawful height_nonnull
  time_lawful time_nonnull locktime_lawful locktime_nonnull psbt_sighash_lawful psbt_sighash_nonnull schnorr_sighash_lawful leafver_lawful leafver_nonnull parity_lawful
  option_lawful vec_lawful vec_nonnull newtype_lawful newtype_nonnull tuple_lawful tuple_nonnull map_lawful map_nonnull map_as_seq_lawful map_byte_values_lawful
  map_as_seq_byte_values_lawful struct_nonnull leaf_lawful leaf_nonnull txout_lawful txout_nonnull tx_lawful tx_nonnull point_lawful point_nonnull proof_lawful proof_nonnull : slaw.
Ltac table_law := repeat (apply Forall_cons; [cbn [snd]; auto 8 with slaw|]); try apply Forall_nil.

Notation T0 := (table0 leaf_ser leaf_de leaf_ok).
Lemma table0_lawful : Forall (fun kc => SLawful (snd kc)) T0.
Proof. unfold table0. table_law. Qed.

Ltac struct_law T TL tbl :=
  apply struct_lawful; [rewrite fields_of_names; vm_compute; reflexivity | apply (fields_of_lawful T tbl TL); vm_compute; reflexivity].
Lemma txdata_lawful : SLawful (sc_txdata leaf_ser leaf_de leaf_ok). Proof. unfold sc_txdata. struct_law constr:(T0) table0_lawful pset_serde_TxData. Qed.
Lemma rawkey_lawful : SLawful (sc_rawkey leaf_ser leaf_de leaf_ok). Proof. unfold sc_rawkey. struct_law constr:(T0) table0_lawful pset_serde_Key. Qed.
Lemma propkey_lawful : SLawful (sc_propkey leaf_ser leaf_de leaf_ok). Proof. unfold sc_propkey. struct_law constr:(T0) table0_lawful pset_serde_ProprietaryKey. Qed.
Lemma schnorrsig_lawful : SLawful (sc_schnorrsig leaf_ser leaf_de leaf_ok). Proof. unfold sc_schnorrsig. struct_law constr:(T0) table0_lawful pset_serde_SchnorrSig. Qed.
Lemma controlblock_lawful : SLawful (sc_controlblock leaf_ser leaf_de leaf_ok). Proof. unfold sc_controlblock. struct_law constr:(T0) table0_lawful pset_serde_ControlBlock. Qed.
Hint Resolve txdata_lawful rawkey_lawful propkey_lawful schnorrsig_lawful controlblock_lawful : slaw.

Notation T1 := (table1 pt_ok maxvec cap_txin cap_txout cap_vecu8 leaf_ser leaf_de leaf_ok).
Lemma table1_lawful : Forall (fun kc => SLawful (snd kc)) T1.
Proof. unfold table1. apply Forall_app. split; [exact table0_lawful|].
  unfold sc_xonly, sc_keysource, sc_tapleafhash, sc_plainhash, sc_schnorrsig, sc_txdata, sc_rawkey, sc_propkey, sc_controlblock.
  repeat (apply Forall_cons; [cbn [snd]; auto 10 using Forall_cons, Forall_nil with slaw|]); try apply Forall_nil. Qed.
Lemma global_lawful : SLawful (sc_global pt_ok maxvec cap_txin cap_txout cap_vecu8 leaf_ser leaf_de leaf_ok).
Proof. unfold sc_global. struct_law constr:(T1) table1_lawful pset_serde_Global. Qed.
Lemma input_lawful : SLawful (sc_input pt_ok maxvec cap_txin cap_txout cap_vecu8 leaf_ser leaf_de leaf_ok).
Proof. unfold sc_input. struct_law constr:(T1) table1_lawful pset_serde_Input. Qed.
Lemma output_lawful : SLawful (sc_output pt_ok maxvec cap_txin cap_txout cap_vecu8 leaf_ser leaf_de leaf_ok).
Proof. unfold sc_output. struct_law constr:(T1) table1_lawful pset_serde_Output. Qed.
Notation T2 := (table2 pt_ok maxvec cap_txin cap_txout cap_vecu8 leaf_ser leaf_de leaf_ok).
Lemma table2_lawful : Forall (fun kc => SLawful (snd kc)) T2.
Proof. unfold table2. repeat (apply Forall_cons; [cbn [snd]; auto using global_lawful, input_lawful, output_lawful, vec_lawful|]). apply Forall_nil. Qed.
Lemma pset_lawful : SLawful (sc_pset pt_ok maxvec cap_txin cap_txout cap_vecu8 leaf_ser leaf_de leaf_ok).
Proof. unfold sc_pset. struct_law constr:(T2) table2_lawful pset_serde_PartiallySignedTransaction. Qed.
End PSETLAW.
