(* C03 — full sensitivity, legacy (flags in the outpoint index, Q1 = true): the message is the consensus encoding of a version,
   a vector of signing inputs, a vector of signing outputs, the lock time and the hash type; the C01 codec laws make it injective. *)
From Coq Require Import List Arith NArith Bool Lia.
From Coq.Strings Require Import Byte.
From EV Require Import Base.Bytes Base.Codec Model.Tx Model.SighashImpl Model.SighashSpec Model.SighashCommit
  Proofs.Flags Proofs.Tx Proofs.Sighash Proofs.SighashCommit Proofs.SighashCommitTap Proofs.SighashCommitSeg.
Import ListNotations.
Open Scope N_scope.
Set Default Timeout 120.

Section LEGACY.
Variable pt_ok : bytes -> bool.
Variable H : bytes -> bytes.
Notation canon_in := (canon_in pt_ok). Notation canon_out := (canon_out pt_ok). Notation canon_tx := (canon_tx pt_ok).
Notation CTI := (c_txin pt_ok BIG). Notation CTO := (c_txout pt_ok BIG).

(* the signing inputs and outputs as in-memory values *)
Definition sig_in (ht : N) (idx : nat) (sc : bytes) (n : nat) (i : txin) : txin :=
  {| in_prev := in_prev i; in_pegin := in_pegin i; in_script := (if Nat.eqb n idx then sc else []);
     in_seq := (if negb (Nat.eqb n idx) && (hash_single ht || hash_none ht) then 0 else in_seq i); in_iss := in_iss i; in_wit := empty_inwit |}.
Definition sig_ins (ht : N) (idx : nat) (sc : bytes) (t : tx) (me : txin) : list txin :=
  if anyone_can_pay ht then [sig_in ht idx sc idx me] else mapi (sig_in ht idx sc) (tx_in t).
Definition sig_out (ht : N) (idx : nat) (n : nat) (o : txout) : txout := if hash_single ht && negb (Nat.eqb n idx) then null_txout else strip_out o.
Definition sig_outs (ht : N) (idx : nat) (t : tx) : list txout :=
  if hash_none ht then [] else if hash_single ht then mapi (sig_out ht idx) (firstn (idx + 1) (tx_out t)) else map strip_out (tx_out t).
Definition fv_sigin (x : txin) : fv := FList [fv_outpoint (in_prev x); fv_flags x; fv_iss_opt x; FBytes (in_script x); FNum (in_seq x)].

Lemma wfB_flags x : txin_wfB x = true -> wire_has_issuance (wire_vout x) = has_issuance x.
Proof. unfold txin_wfB. intros W. apply andb_true_iff in W as [W _]. apply andb_true_iff in W as [Wv _].
  unfold wire_vout, wire_has_issuance. apply orb_true_iff in Wv as [Wv|Wv].
  - apply andb_true_iff in Wv as [Wlt Wnt]. apply N.ltb_lt in Wlt.
    assert (Hn : ~ (o_vout (in_prev x) = MASK /\ in_pegin x = true /\ has_issuance x = true)).
    { intros (E1 & E2 & E3). rewrite E1, E2, E3 in Wnt. cbn in Wnt. discriminate. }
    destruct (join_read _ (in_pegin x) (has_issuance x) Wlt Hn) as (Hne & _ & H31 & _). unfold join, B30, B31, ALL1 in *. fold bit30 bit31 u32max in *.
    destruct (N.eqb_spec (N.lor (N.lor (o_vout (in_prev x)) (if in_pegin x then bit30 else 0)) (if has_issuance x then bit31 else 0)) u32max); [contradiction|exact H31].
  - apply andb_true_iff in Wv as [Wv Wni]. apply andb_true_iff in Wv as [Wv Wnp]. apply N.eqb_eq in Wv. rewrite Wv.
    destruct (in_pegin x); [discriminate|]. destruct (has_issuance x); [discriminate|]. reflexivity. Qed.

Lemma wf_sig_in i s' q' : wf CTI (strip_in i) = true -> wf (c_varbytes BIG) s' = true -> q' < 4294967296 ->
  wf CTI {| in_prev := in_prev i; in_pegin := in_pegin i; in_script := s'; in_seq := q'; in_iss := in_iss i; in_wit := empty_inwit |} = true.
Proof. destruct i as [[tx v] pg s q iss w]. unfold strip_in, c_txin, c_txin_nowit. cbn [c_conv wf in_prev in_pegin in_script in_seq in_iss in_wit].
  intros W Ws Wq. apply andb_true_iff in W as [Wb Ww]. apply andb_true_iff. split; [exact Wb|].
  cbn [c_txin_wire c_dep wf c_txin_head c_pair fst snd wire_of_txin in_prev in_pegin in_script in_seq in_iss o_txid o_vout] in *.
  apply andb_true_iff in Ww as [Wh Wi]. apply andb_true_iff in Wh as [Wtv Wsq]. apply andb_true_iff in Wsq as [_ _].
  unfold wire_vout in *. cbn [in_prev in_pegin in_iss o_vout has_issuance] in *. unfold has_issuance in *. cbn [in_iss] in *.
  rewrite Wtv, Wi. cbn [andb]. change (wf (c_script BIG) s') with (wf (c_varbytes BIG) s'). rewrite Ws. cbn [andb]. rewrite andb_true_r. now apply u32_wf. Qed.

Lemma mapi_from_ext_p {A B} (p : A -> bool) (f g : nat -> A -> B) : (forall n a, p a = true -> f n a = g n a) ->
  forall l n, forallb p l = true -> mapi_from n f l = mapi_from n g l.
Proof. intros E. induction l as [|a l IH]; intros n F; cbn in *; [reflexivity|]. apply andb_true_iff in F as [Fa Fl]. now rewrite (E _ _ Fa), IH. Qed.
Lemma forallb_mapi {A B} (p : A -> bool) (q : B -> bool) (f : nat -> A -> B) : (forall n a, p a = true -> q (f n a) = true) ->
  forall l n, forallb p l = true -> forallb q (mapi_from n f l) = true.
Proof. intros E. induction l as [|a l IH]; intros n F; cbn in *; [reflexivity|]. apply andb_true_iff in F as [Fa Fl]. now rewrite (E _ _ Fa), IH. Qed.
Lemma forallb_firstn {A} (p : A -> bool) l : forallb p l = true -> forall n, forallb p (firstn n l) = true.
Proof. induction l as [|a l IH]; intros F [|n]; cbn in *; auto. apply andb_true_iff in F as [Fa Fl]. now rewrite Fa, IH. Qed.

Lemma canon_wf_strip i : canon_in i = true -> wf CTI (strip_in i) = true.
Proof. intros C. now destruct (canon_in_facts pt_ok i C) as (_ & _ & _ & _ & _ & _ & W). Qed.
Lemma canon_out_wf_strip o : canon_out o = true -> wf CTO (strip_out o) = true.
Proof. unfold SighashCommit.canon_out. intros C. apply andb_true_iff in C as [C _]. now apply andb_true_iff in C as [C _]. Qed.

Lemma leg_input_enc ht idx sc n i : canon_in i = true -> legacy_input pt_ok true ht idx sc n i = enc CTI (sig_in ht idx sc n i).
Proof. intros C. rewrite <- (legacy_input_eq pt_ok BIG ht idx sc _ n i eq_refl). apply e_txin_canonical.
  pose proof (canon_wf_strip i C) as W. unfold c_txin, c_txin_nowit in W. cbn [c_conv wf] in W. apply andb_true_iff in W as [Wb _].
  exact (wfB_flags (strip_in i) Wb). Qed.
Lemma wf_sig i ht idx sc n : canon_in i = true -> len_ok sc = true -> wf CTI (sig_in ht idx sc n i) = true.
Proof. intros C L. unfold sig_in. apply wf_sig_in; [now apply canon_wf_strip| |].
  - destruct (Nat.eqb n idx); [now apply len_ok_wf|reflexivity].
  - destruct (canon_in_facts pt_ok i C) as (_ & _ & Q & _). destruct (negb (Nat.eqb n idx) && (hash_single ht || hash_none ht)); [lia|exact Q]. Qed.
Lemma leg_output_enc ht idx n o : legacy_output pt_ok ht idx n o = enc CTO (sig_out ht idx n o).
Proof. unfold legacy_output, sig_out. destruct (hash_single ht && negb (Nat.eqb n idx)); reflexivity. Qed.
Lemma wf_sigout ht idx n o : canon_out o = true -> wf CTO (sig_out ht idx n o) = true.
Proof. intros C. unfold sig_out. destruct (hash_single ht && negb (Nat.eqb n idx)); [reflexivity|now apply canon_out_wf_strip]. Qed.

Lemma canon_tx_lens t : canon_tx t = true -> N.of_nat (length (tx_in t)) < BIG /\ N.of_nat (length (tx_out t)) < BIG.
Proof. unfold SighashCommit.canon_tx. intros C. apply andb_true_iff in C as [C L2]. apply andb_true_iff in C as [C L1]. apply N.ltb_lt in L1, L2. auto. Qed.
Lemma vec_wf {A} (c : codec A) l : N.of_nat (length l) < BIG -> forallb (wf c) l = true -> wf (c_vec c BIG) l = true.
Proof. intros L F. cbn [c_vec wf]. rewrite F, andb_true_r. apply andb_true_iff. split; [apply N.leb_le; lia|]. apply N.ltb_lt. change (2 ^ 64) with BIG. exact L. Qed.

Lemma legacy_msg_enc t idx sc ht m me : spec_legacy_msg pt_ok true t idx sc ht = Some m -> nth_error (tx_in t) idx = Some me -> canon_tx t = true ->
  m = enc c_u32 (tx_version t) ++ enc (c_vec CTI BIG) (sig_ins ht idx sc t me) ++ enc (c_vec CTO BIG) (sig_outs ht idx t) ++ enc c_u32 (tx_lock t) ++ enc c_u32 ht.
Proof. unfold spec_legacy_msg. intros S N C. rewrite N in S. destruct (legacy_single_bug t idx ht) eqn:Bug; [discriminate|]. apply Some_inj in S. subst m.
  destruct (canon_tx_facts pt_ok t C) as (_ & _ & CI & CO). pose proof (forallb_nth _ _ _ _ CI N) as Cme.
  change (ser_u32 (tx_version t)) with (enc c_u32 (tx_version t)). f_equal. f_equal; [|f_equal].
  - unfold sig_ins. destruct (anyone_can_pay ht); cbn [c_vec enc].
    + unfold vn_enc. cbn [map concat length]. rewrite app_nil_r, (leg_input_enc ht idx sc idx me Cme). reflexivity.
    + unfold mapi. rewrite mapi_from_length. unfold vn_enc. rewrite map_mapi_from. f_equal. f_equal.
      apply (mapi_from_ext_p canon_in); [|exact CI]. intros n a Ca. now apply leg_input_enc.
  - unfold sig_outs. unfold legacy_single_bug in Bug. destruct (hash_none ht); [reflexivity|]. destruct (hash_single ht); cbn [c_vec enc andb] in *.
    + unfold mapi. rewrite mapi_from_length, firstn_length. apply Nat.leb_gt in Bug. replace (Nat.min (idx + 1) (length (tx_out t))) with (idx + 1)%nat by lia.
      unfold vn_enc. rewrite map_mapi_from. f_equal. f_equal. apply mapi_from_ext. intros. apply leg_output_enc.
    + rewrite map_length. unfold vn_enc. rewrite map_map. reflexivity. Qed.

Lemma legacy_committed_eq t idx sc ht me : nth_error (tx_in t) idx = Some me -> legacy_single_bug t idx ht = false ->
  legacy_committed t idx sc ht = [FNum (tx_version t); FList (map fv_sigin (sig_ins ht idx sc t me)); FList (map fv_txout (sig_outs ht idx t)); FNum (tx_lock t); FNum ht].
Proof. intros N Bug. unfold legacy_committed. rewrite N, Bug. f_equal. f_equal; [|f_equal].
  - f_equal. unfold sig_ins. destruct (anyone_can_pay ht); [reflexivity|]. unfold mapi. rewrite map_mapi_from. apply mapi_from_ext. reflexivity.
  - f_equal. unfold sig_outs. destruct (hash_none ht); [reflexivity|]. destruct (hash_single ht) eqn:S.
    + unfold mapi. rewrite map_mapi_from. apply mapi_from_ext. intros n a. unfold legacy_out_view, sig_out. rewrite S. destruct (true && negb (Nat.eqb n idx)); reflexivity.
    + rewrite map_map. reflexivity. Qed.

Lemma wf_sig_ins t idx sc ht me : canon_tx t = true -> nth_error (tx_in t) idx = Some me -> len_ok sc = true -> wf (c_vec CTI BIG) (sig_ins ht idx sc t me) = true.
Proof. intros C N L. destruct (canon_tx_facts pt_ok t C) as (_ & _ & CI & _). destruct (canon_tx_lens t C) as [L1 _]. pose proof (forallb_nth _ _ _ _ CI N) as Cme.
  unfold sig_ins. destruct (anyone_can_pay ht).
  - apply vec_wf; [cbn; unfold BIG; lia|]. cbn [forallb]. now rewrite (wf_sig me ht idx sc idx Cme L).
  - apply vec_wf; [unfold mapi; now rewrite mapi_from_length|]. apply (forallb_mapi canon_in); [|exact CI]. intros. now apply wf_sig. Qed.
Lemma wf_sig_outs t idx ht : canon_tx t = true -> wf (c_vec CTO BIG) (sig_outs ht idx t) = true.
Proof. intros C. destruct (canon_tx_facts pt_ok t C) as (_ & _ & _ & CO). destruct (canon_tx_lens t C) as [_ L2].
  unfold sig_outs. destruct (hash_none ht); [reflexivity|]. destruct (hash_single ht).
  - apply vec_wf; [unfold mapi; rewrite mapi_from_length, firstn_length; lia|]. apply (forallb_mapi canon_out); [|now apply forallb_firstn]. intros. now apply wf_sigout.
  - apply vec_wf; [now rewrite map_length|]. rewrite forallb_map'. eapply forallb_impl; [|exact CO]. apply canon_out_wf_strip. Qed.

Theorem legacy_msg_sensitive t t' idx idx' sc sc' ht ht' m :
  spec_legacy_msg pt_ok true t idx sc ht = Some m -> spec_legacy_msg pt_ok true t' idx' sc' ht' = Some m ->
  canon_tx t = true -> canon_tx t' = true -> leg_query_ok sc ht = true -> leg_query_ok sc' ht' = true ->
  legacy_committed t idx sc ht = legacy_committed t' idx' sc' ht'.
Proof. intros S S' C C' Q Q'. unfold leg_query_ok in Q, Q'. apply andb_true_iff in Q as [Qs Qh]. apply andb_true_iff in Q' as [Qs' Qh']. apply N.ltb_lt in Qh, Qh'.
  destruct (nth_error (tx_in t) idx) as [me|] eqn:N; [|unfold spec_legacy_msg in S; rewrite N in S; discriminate].
  destruct (nth_error (tx_in t') idx') as [me'|] eqn:N'; [|unfold spec_legacy_msg in S'; rewrite N' in S'; discriminate].
  assert (Bug : legacy_single_bug t idx ht = false) by (unfold spec_legacy_msg in S; rewrite N in S; destruct (legacy_single_bug t idx ht); [discriminate|reflexivity]).
  assert (Bug' : legacy_single_bug t' idx' ht' = false) by (unfold spec_legacy_msg in S'; rewrite N' in S'; destruct (legacy_single_bug t' idx' ht'); [discriminate|reflexivity]).
  rewrite (legacy_committed_eq t idx sc ht me N Bug), (legacy_committed_eq t' idx' sc' ht' me' N' Bug').
  pose proof (legacy_msg_enc t idx sc ht m me S N C) as E. pose proof (legacy_msg_enc t' idx' sc' ht' m me' S' N' C') as E'. rewrite E' in E. clear E' S S'.
  destruct (canon_tx_facts pt_ok t C) as (Vv & Vl & _). destruct (canon_tx_facts pt_ok t' C') as (Vv' & Vl' & _).
  apply (peel c_u32) in E as [Ev E]; [|apply (c_le_lawful 4)|now apply u32_wf|now apply u32_wf].
  apply (peel (c_vec CTI BIG)) in E as [Ei E]; [|apply c_vec_lawful, c_txin_nowit_lawful|now apply wf_sig_ins|now apply wf_sig_ins].
  apply (peel (c_vec CTO BIG)) in E as [Eo E]; [|apply c_vec_lawful, c_txout_nowit_lawful|now apply wf_sig_outs|now apply wf_sig_outs].
  apply (peel c_u32) in E as [El E]; [|apply (c_le_lawful 4)|now apply u32_wf|now apply u32_wf].
  apply ser_u32_inj in E; auto. now rewrite Ev, Ei, Eo, El, E. Qed.
End LEGACY.
