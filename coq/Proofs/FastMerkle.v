(* Proofs for Model/FastMerkle.v: level-by-level definition = RFC 6962-style split tree = binary counter algorithm. *)
From Coq Require Import List Arith ZArith Lia PeanoNat ZifyNat.
From EV Require Import Model.FastMerkle.
Ltac Zify.zify_post_hook ::= Z.div_mod_to_equations.
Import ListNotations.
Section FMR.
Variable H : Type. Variable zero : H. Variable cmp : H -> H -> H.
Notation pairup := (pairup cmp). Notation levels := (levels zero cmp). Notation fmr_spec := (fmr_spec zero cmp).
Notation incr := (incr cmp). Notation fin := (fin cmp). Notation fmr_ctr := (fmr_ctr zero cmp).
Notation ctr := (ctr H).
(* S2: split at the largest power of two strictly below the length (RFC 6962 shape) *)
Fixpoint lp2_aux (fuel k n : nat) : nat := match fuel with O => k | S f => if 2 * k <? n then lp2_aux f (2 * k) n else k end.
Definition lp2 (n : nat) : nat := lp2_aux n 1 n.
Fixpoint mth (fuel : nat) (l : list H) : H :=
  match l with [] => zero | [x] => x | _ =>
    match fuel with O => zero | S f => let k := lp2 (length l) in cmp (mth f (firstn k l)) (mth f (skipn k l)) end end.

Definition pow2 (k : nat) := exists e, k = 2 ^ e.
Lemma pow2_pos k : pow2 k -> 0 < k. Proof. intros [e ->]. apply Nat.neq_0_lt_0, Nat.pow_nonzero. lia. Qed.
Lemma pow2_double k : pow2 k -> pow2 (2 * k). Proof. intros [e ->]. exists (S e). cbn. lia. Qed.
Lemma pow2_gap a b : pow2 a -> pow2 b -> a < b -> 2 * a <= b.
Proof. intros [ea ->] [eb ->] L. apply Nat.pow_lt_mono_r_iff in L; [|lia]. replace (2 * 2 ^ ea) with (2 ^ S ea) by (cbn; lia). apply Nat.pow_le_mono_r; lia. Qed.
Lemma pow2_unique_between a b n : pow2 a -> pow2 b -> a < n <= 2 * a -> b < n <= 2 * b -> a = b.
Proof. intros Pa Pb Ha Hb. destruct (Nat.lt_trichotomy a b) as [L|[E|L]]; [|assumption|].
  - pose proof (pow2_gap _ _ Pa Pb L). lia.
  - pose proof (pow2_gap _ _ Pb Pa L). lia. Qed.
Lemma lp2_aux_spec fuel : forall k n, pow2 k -> k < n -> n <= k * 2 ^ fuel -> pow2 (lp2_aux fuel k n) /\ lp2_aux fuel k n < n /\ n <= 2 * lp2_aux fuel k n.
Proof. induction fuel as [|f IH]; intros k n Pk Hk Hn; cbn [lp2_aux].
  - cbn in Hn. lia.
  - destruct (Nat.ltb_spec (2 * k) n) as [L|L].
    + apply IH; [now apply pow2_double|assumption|]. cbn [Nat.pow] in Hn. nia.
    + repeat split; try assumption. Qed.
Lemma lp2_spec n : 2 <= n -> pow2 (lp2 n) /\ lp2 n < n /\ n <= 2 * lp2 n.
Proof. intros Hn. unfold lp2. apply lp2_aux_spec; [exists 0; reflexivity|lia|].
  assert (n < 2 ^ n) by (apply Nat.pow_gt_lin_r; lia). lia. Qed.
Lemma lp2_char n k : 2 <= n -> pow2 k -> k < n <= 2 * k -> lp2 n = k.
Proof. intros Hn Pk Hk. destruct (lp2_spec n Hn) as (P & L & U). eapply pow2_unique_between; eauto. Qed.

(* pairup facts *)
Lemma list_ind2 (P : list H -> Prop) : P [] -> (forall x, P [x]) -> (forall x y r, P r -> P (x :: y :: r)) -> forall l, P l.
Proof. intros P0 P1 P2. fix IH 1. intros [|x [|y r]]; [exact P0|apply P1|apply P2, IH]. Qed.
Lemma pairup_length l : length (pairup l) = (length l + 1) / 2.
Proof. induction l as [|x|x y r IH] using list_ind2; [reflexivity|reflexivity|].
  cbn [pairup length]. rewrite IH. replace (S (S (length r)) + 1) with (length r + 1 + 1 * 2) by lia. rewrite Nat.div_add by lia. lia. Qed.
Lemma pairup_app_even a : forall b, Nat.even (length a) = true -> pairup (a ++ b) = pairup a ++ pairup b.
Proof. induction a as [|x|x y r IH] using list_ind2; intros b E; [reflexivity|discriminate|].
  cbn [app pairup]. f_equal. apply IH. cbn [length] in E. now rewrite Nat.even_succ_succ in E. Qed.
Lemma pow2_even k : pow2 k -> 2 <= k -> Nat.even k = true /\ pow2 (k / 2).
Proof. intros [e ->] L. destruct e as [|e]; [cbn in L; lia|]. cbn [Nat.pow]. split.
  - rewrite Nat.even_mul. reflexivity.
  - exists e. rewrite Nat.mul_comm, Nat.div_mul; lia. Qed.

Lemma mth_unfold f l : 2 <= length l -> mth (S f) l = cmp (mth f (firstn (lp2 (length l)) l)) (mth f (skipn (lp2 (length l)) l)).
Proof. destruct l as [|x [|y r]]; cbn [length]; try lia. reflexivity. Qed.
(* the key claim: the split tree of a list equals the split tree of its paired-up list *)
Lemma mth_fuel_irrel : forall f1 f2 l, length l <= f1 -> length l <= f2 -> mth f1 l = mth f2 l.
Proof. induction f1 as [|f1 IH]; intros f2 l L1 L2.
  - destruct l as [|x [|y r]]; cbn in *; try lia; destruct f2; reflexivity.
  - destruct l as [|x [|y r]]; [destruct f2; reflexivity|destruct f2; reflexivity|].
    destruct f2 as [|f2]; [cbn in L2; lia|]. cbn [mth].
    set (l := x :: y :: r) in *. assert (Hl : 2 <= length l) by (cbn; lia).
    destruct (lp2_spec _ Hl) as (P & Lt & U). pose proof (pow2_pos _ P).
    f_equal; apply IH; rewrite ?firstn_length, ?skipn_length; lia. Qed.
Lemma mth_pairup : forall n l f, length l = n -> 2 <= n -> n <= f -> mth f l = mth f (pairup l).
Proof. induction n as [n IH] using lt_wf_ind. intros l f Hlen Hn Hf.
  destruct l as [|x [|y r]]; try (cbn in Hlen; lia).
  destruct r as [|z r'].
  { (* n = 2 *) cbn in Hlen. destruct f as [|[|f]]; try lia; reflexivity. }
  assert (N3 : 3 <= n) by (cbn in Hlen; lia).
  set (l := x :: y :: z :: r') in *.
  destruct (lp2_spec n Hn) as (P & Lt & U). set (k := lp2 n) in *. pose proof (pow2_pos _ P) as Kpos.
  assert (K2 : 2 <= k) by lia.
  destruct (pow2_even k P K2) as (Ek & Ph).
  destruct f as [|f]; [lia|].
  assert (Hm : mth (S f) l = cmp (mth f (firstn k l)) (mth f (skipn k l))).
  { rewrite mth_unfold by lia. rewrite Hlen. reflexivity. }
  rewrite Hm.
  (* right-hand side *)
  assert (Hsplit : l = firstn k l ++ skipn k l) by (symmetry; apply firstn_skipn).
  assert (Lf : length (firstn k l) = k) by (rewrite firstn_length; lia).
  assert (Ls : length (skipn k l) = n - k) by (rewrite skipn_length; lia).
  assert (Hp : pairup l = pairup (firstn k l) ++ pairup (skipn k l)).
  { rewrite Hsplit at 1. apply pairup_app_even. now rewrite Lf. }
  assert (Lpf : length (pairup (firstn k l)) = k / 2).
  { rewrite pairup_length, Lf. apply Nat.even_spec in Ek as [c Hc]. lia. }
  assert (Lp : length (pairup l) = (n + 1) / 2) by (rewrite pairup_length; now rewrite Hlen).
  assert (Hn2 : 2 <= (n + 1) / 2) by lia.
  assert (Hk2 : lp2 ((n + 1) / 2) = k / 2).
  { apply lp2_char; [assumption|assumption|]. apply Nat.even_spec in Ek as [c Hc]. lia. }
  assert (Hr : mth (S f) (pairup l) = cmp (mth f (pairup (firstn k l))) (mth f (pairup (skipn k l)))).
  { rewrite mth_unfold by lia. rewrite Lp, Hk2, Hp.
    rewrite <- Lpf at 1. rewrite firstn_app, Nat.sub_diag, firstn_O, app_nil_r, firstn_all.
    rewrite <- Lpf at 1. rewrite skipn_app, Nat.sub_diag, skipn_all. reflexivity. }
  rewrite Hr. f_equal.
  - apply (IH k); lia.
  - destruct (Nat.eq_dec (n - k) 1) as [E1|NE].
    + destruct (skipn k l) as [|s [|s2 t]] eqn:Es; cbn in Ls; try lia. reflexivity.
    + apply (IH (n - k)); lia. Qed.

Theorem spec_is_mth : forall f l, length l <= f -> levels f l = mth f l.
Proof. induction f as [|f IH]; intros l L.
  - destruct l as [|x [|y r]]; cbn in *; try lia; reflexivity.
  - destruct l as [|x [|y r]]; [reflexivity|reflexivity|].
    set (l := x :: y :: r) in *. assert (Hl : 2 <= length l) by (cbn; lia).
    change (levels (S f) l) with (levels f (pairup l)).
    assert (Lp : length (pairup l) <= f).
    { rewrite pairup_length. lia. }
    rewrite IH by assumption. rewrite (mth_pairup (length l) l (S f) eq_refl Hl L).
    apply mth_fuel_irrel; [assumption|lia]. Qed.

(* ---------- the incremental algorithm as a binary counter of pending subtree hashes (LSB first) ---------- *)
Definition M (l : list H) : H := mth (length l) l.
Lemma M_single x : M [x] = x. Proof. reflexivity. Qed.
Lemma M_join a b : pow2 (length a) -> 0 < length b <= length a -> M (a ++ b) = cmp (M a) (M b).
Proof. intros Pa Hb. unfold M. pose proof (pow2_pos _ Pa) as Ha.
  assert (L2 : 2 <= length (a ++ b)) by (rewrite app_length; lia).
  destruct (length (a ++ b)) as [|f] eqn:E; [lia|]. rewrite mth_unfold by lia. rewrite E.
  assert (K : lp2 (S f) = length a). { apply lp2_char; [lia|assumption|]. rewrite <- E, app_length. lia. }
  rewrite K, firstn_app, Nat.sub_diag, firstn_O, app_nil_r, firstn_all, skipn_app, Nat.sub_diag, skipn_all. cbn [skipn app].
  rewrite app_length in E. f_equal; apply mth_fuel_irrel; lia. Qed.

(* Rep j c p : counter c, whose head is level j, represents the processed prefix p *)
Inductive Rep : nat -> ctr -> list H -> Prop :=
| Rep_nil j : Rep j [] []
| Rep_none j r p : Rep (S j) r p -> Rep j (None :: r) p
| Rep_some j r p b : Rep (S j) r p -> length b = 2 ^ j -> Rep j (Some (M b) :: r) (p ++ b).

Lemma incr_rep : forall c j p b, Rep j c p -> length b = 2 ^ j -> Rep j (incr (M b) c) (p ++ b).
Proof. induction c as [|[x|] r IH]; intros j p b R Lb;
  inversion R as [ j0 | j0 r0 p0 R' | j0 r0 p0 b0 R' Lb0 ]; subst; cbn [incr].
  - replace ([] ++ b) with ([] ++ b) by reflexivity. apply Rep_some; [constructor|assumption].
  - (* carry *) rewrite <- app_assoc. apply Rep_none.
    rewrite <- M_join; [|rewrite Lb0; exists j; reflexivity|lia].
    apply IH; [assumption|]. rewrite app_length. cbn [Nat.pow]. lia.
  - apply Rep_some; assumption. Qed.

Lemma fin_rep : forall c j p q acc, Rep j c p ->
  ((acc = None /\ q = []) \/ (acc = Some (M q) /\ 0 < length q < 2 ^ j)) ->
  p ++ q <> [] -> fin c acc = Some (M (p ++ q)).
Proof. induction c as [|[x|] r IH]; intros j p q acc R Hacc NE;
  inversion R as [ j0 | j0 r0 p0 R' | j0 r0 p0 b0 R' Lb0 ]; subst; cbn [fin].
  - destruct Hacc as [[-> ->]|[-> _]]; [contradiction NE; reflexivity|reflexivity].
  - pose proof (Nat.pow_nonzero 2 j ltac:(lia)) as NZ.
    rewrite <- app_assoc. destruct Hacc as [[-> ->]|[-> Hq]].
    + apply (IH (S j) p0 (b0 ++ []) (Some (M b0))); [assumption| |].
      * right. rewrite app_nil_r. split; [reflexivity|]. cbn [Nat.pow]. lia.
      * rewrite app_nil_r. intro E. apply app_eq_nil in E as [_ E]. subst b0. cbn [length] in Lb0. lia.
    + apply (IH (S j) p0 (b0 ++ q) (Some (cmp (M b0) (M q)))); [assumption| |].
      * right. rewrite M_join; [|rewrite Lb0; exists j; reflexivity|lia]. split; [reflexivity|]. rewrite app_length. cbn [Nat.pow]. lia.
      * intro E. apply app_eq_nil in E as [_ E]. apply app_eq_nil in E as [E _]. subst b0. cbn [length] in Lb0. lia.
  - apply (IH (S j) p q acc); [assumption| |assumption].
    destruct Hacc as [?|[-> Hq]]; [now left|right]. split; [reflexivity|]. cbn [Nat.pow]. lia. Qed.

Lemma fold_rep : forall l c p, Rep 0 c p -> Rep 0 (fold_left (fun c h => incr h c) l c) (p ++ l).
Proof. induction l as [|h l IH]; intros c p R; cbn [fold_left].
  - now rewrite app_nil_r.
  - replace (p ++ h :: l) with ((p ++ [h]) ++ l) by (rewrite <- app_assoc; reflexivity).
    apply IH. change h with (M [h]). apply incr_rep; [assumption|reflexivity]. Qed.

Theorem ctr_is_mth l : fmr_ctr l = match l with [] => zero | _ => M l end.
Proof. unfold fmr_ctr. pose proof (fold_rep l [] [] (Rep_nil 0)) as R. cbn [app] in R.
  destruct l as [|x l']; [reflexivity|].
  rewrite (fin_rep _ 0 (x :: l') [] None R); [now rewrite app_nil_r|left; split; reflexivity|rewrite app_nil_r; discriminate]. Qed.

Theorem ctr_is_spec l : fmr_ctr l = fmr_spec l.
Proof. rewrite ctr_is_mth. unfold fmr_spec. destruct l as [|x l']; [reflexivity|]. unfold M. symmetry. apply spec_is_mth. lia. Qed.
(* ---------- sensitivity: equal roots of equally long lists force equal lists, or exhibit a collision of cmp ---------- *)
Variable H_eq_dec : forall a b : H, {a = b} + {a <> b}.
Definition Collision : Prop := exists a b c d, (a, b) <> (c, d) /\ cmp a b = cmp c d.
Lemma cmp_inj_or x y x' y' : cmp x y = cmp x' y' -> (x = x' /\ y = y') \/ Collision.
Proof. intros E. destruct (H_eq_dec x x') as [->|N]; [destruct (H_eq_dec y y') as [->|N]|].
  - now left.
  - right. exists x', y, x', y'. split; [intro P; inversion P; contradiction|assumption].
  - right. exists x, y, x', y'. split; [intro P; inversion P; contradiction|assumption]. Qed.
Lemma pairup_inj : forall l l', length l = length l' -> pairup l = pairup l' -> l = l' \/ Collision.
Proof. induction l as [|x|x y r IH] using list_ind2; intros l' L E.
  - destruct l'; [now left|discriminate].
  - destruct l' as [|x' [|y' r']]; try discriminate. cbn in E. now left.
  - destruct l' as [|x' [|y' r']]; try discriminate. cbn [pairup] in E. injection E as E1 E2.
    cbn [length] in L. destruct (IH r' ltac:(lia) E2) as [->|C]; [|now right].
    destruct (cmp_inj_or _ _ _ _ E1) as [[-> ->]|C]; [now left|now right]. Qed.
Lemma levels_inj : forall f l l', length l = length l' -> length l <= f -> levels f l = levels f l' -> l = l' \/ Collision.
Proof. induction f as [|f IH]; intros l l' L Lf E.
  - destruct l as [|x [|y r]]; cbn in Lf; try lia. destruct l'; [now left|discriminate].
  - destruct l as [|x [|y r]]; destruct l' as [|x' [|y' r']]; try discriminate; [now left|cbn in E; subst; now left|].
    change (levels f (pairup (x :: y :: r)) = levels f (pairup (x' :: y' :: r'))) in E.
    assert (Lp : length (pairup (x :: y :: r)) = length (pairup (x' :: y' :: r'))) by (rewrite !pairup_length, L; reflexivity).
    assert (Lpf : length (pairup (x :: y :: r)) <= f) by (rewrite pairup_length; cbn [length] in *; lia).
    destruct (IH _ _ Lp Lpf E) as [E'|C]; [|now right]. now apply pairup_inj. Qed.
Theorem spec_depends l l' : length l = length l' -> fmr_spec l = fmr_spec l' -> l = l' \/ Collision.
Proof. intros L E. unfold fmr_spec in E. rewrite <- L in E. now apply (levels_inj (length l)). Qed.
End FMR.

