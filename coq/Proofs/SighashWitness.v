(* C13 / C03 — on the implementation model every query's result (digest, pre-image, error, panic) and every cache content is
   independent of script_sig, script witness and pegin witness of the inputs: a simulation between two cache objects whose
   transactions differ at most in those fields. *)
From Coq Require Import List Arith NArith Bool Lia.
From Coq.Strings Require Import Byte.
From EV Require Import Base.Bytes Base.Codec Gen.Tables Model.Tx Model.SighashImpl Model.SighashCache Model.SighashSpec Model.SighashQuery
  Proofs.SighashCache Proofs.Sighash.
Import ListNotations.
Open Scope N_scope.
Set Default Timeout 120.

Section WIT.
Variable pt_ok : bytes -> bool.
Variable maxvec : N.
Variable H : bytes -> bytes.
Variable Htag : bytes -> bytes.
Notation compute_common := (compute_common pt_ok maxvec H).
Notation compute_taproot := (compute_taproot pt_ok maxvec H).
Notation common_cache_get := (common_cache_get pt_ok maxvec H).
Notation segwit_cache_get := (segwit_cache_get pt_ok maxvec H).
Notation taproot_cache_get := (taproot_cache_get pt_ok maxvec H).

Definition Rel (s s' : state) : Prop :=
  tx_sig_eq (st_tx s) (st_tx s') /\ st_common s = st_common s' /\ st_segwit s = st_segwit s' /\ st_taproot s = st_taproot s'.
Definition Sim {A} (m m' : M A) : Prop := forall s s', Rel s s' -> snd (m s) = snd (m' s') /\ Rel (fst (m s)) (fst (m' s')).

Lemma F2_flat_map {A B} (R : A -> A -> Prop) (f : A -> list B) : (forall a b, R a b -> f a = f b) -> forall l l', Forall2 R l l' -> flat_map f l = flat_map f l'.
Proof. intros E l l' F. induction F; cbn; [reflexivity|]. now rewrite (E _ _ H0), IHF. Qed.
Lemma F2_map' {A B} (R : A -> A -> Prop) (f : A -> B) : (forall a b, R a b -> f a = f b) -> forall l l', Forall2 R l l' -> map f l = map f l'.
Proof. intros E l l' F. induction F; cbn; [reflexivity|]. now rewrite (E _ _ H0), IHF. Qed.
Lemma F2_len {A} (R : A -> A -> Prop) l l' : Forall2 R l l' -> length l = length l'.
Proof. induction 1; cbn; auto. Qed.
Lemma F2_nth' {A} (R : A -> A -> Prop) l l' : Forall2 R l l' -> forall n,
  match nth_error l n, nth_error l' n with Some a, Some b => R a b | None, None => True | _, _ => False end.
Proof. intros F. induction F; intros [|n]; cbn; auto. apply IHF. Qed.

Lemma sig_has_issuance a b : in_sig_eq a b -> has_issuance a = has_issuance b.
Proof. unfold in_sig_eq, has_issuance. intros (_ & _ & _ & -> & _). reflexivity. Qed.
Lemma sig_outpoint_flag a b : in_sig_eq a b -> outpoint_flag a = outpoint_flag b.
Proof. intros E. unfold outpoint_flag. rewrite (sig_has_issuance _ _ E). destruct E as (_ & -> & _). reflexivity. Qed.

Lemma compute_common_sig t t' : tx_sig_eq t t' -> compute_common t = compute_common t'.
Proof. intros (V & L & I & O). unfold SighashImpl.compute_common. rewrite O.
  rewrite (F2_flat_map in_sig_eq (fun i => e_outpoint (in_prev i)) (fun a b E => f_equal e_outpoint (proj1 E)) _ _ I).
  rewrite (F2_flat_map in_sig_eq (fun i => e_u32 (in_seq i)) (fun a b E => f_equal e_u32 (proj1 (proj2 (proj2 E)))) _ _ I).
  rewrite (F2_flat_map in_sig_eq (fun i => if has_issuance i then e_issuance pt_ok (in_iss i) else [x00])
             (fun a b E => eq_trans (f_equal (fun h : bool => if h then e_issuance pt_ok (in_iss a) else [x00]) (sig_has_issuance a b E))
                                    (f_equal (fun x => if has_issuance b then e_issuance pt_ok x else [x00]) (proj1 (proj2 (proj2 (proj2 E)))))) _ _ I).
  reflexivity. Qed.
Lemma compute_taproot_sig t t' ps : tx_sig_eq t t' -> compute_taproot t ps = compute_taproot t' ps.
Proof. intros (V & L & I & O). unfold SighashImpl.compute_taproot.
  rewrite (F2_map' in_sig_eq (fun i => n2b (outpoint_flag i)) (fun a b E => f_equal n2b (sig_outpoint_flag a b E)) _ _ I).
  assert (P : forall a b, in_sig_eq a b -> e_rangeproof maxvec (w_amount_rp (in_wit a)) ++ e_rangeproof maxvec (w_keys_rp (in_wit a)) =
                                           e_rangeproof maxvec (w_amount_rp (in_wit b)) ++ e_rangeproof maxvec (w_keys_rp (in_wit b))).
  { intros a b (_ & _ & _ & _ & -> & ->). reflexivity. }
  rewrite (F2_flat_map in_sig_eq _ P _ _ I). reflexivity. Qed.

Lemma Sim_ret {A} (a : A) : Sim (ret a) (ret a). Proof. intros s s' R. auto. Qed.
Lemma Sim_lift {A} (r : sres A) : Sim (lift r) (lift r). Proof. intros s s' R. auto. Qed.
Lemma Sim_bind {A B} (m m' : M A) (k k' : A -> M B) : Sim m m' -> (forall a, Sim (k a) (k' a)) -> Sim (bind m k) (bind m' k').
Proof. intros Hm Hk s s' R. destruct (Hm s s' R) as [E R1]. unfold bind. destruct (m s) as [s1 r], (m' s') as [s1' r']. cbn [fst snd] in *. subst r'.
  destruct r as [a|e|]; [apply Hk; exact R1|auto|auto]. Qed.
Lemma Sim_bind_tx {B} (k k' : tx -> M B) : (forall t t', tx_sig_eq t t' -> Sim (k t) (k' t')) -> Sim (bind get_tx k) (bind get_tx k').
Proof. intros Hk s s' R. unfold bind, get_tx. apply Hk; [apply R|exact R]. Qed.
Lemma Sim_common : Sim common_cache_get common_cache_get.
Proof. intros s s' (T & C & S & P). unfold SighashImpl.common_cache_get. rewrite <- C. destruct (st_common s) eqn:Ec; cbn [fst snd].
  - split; [reflexivity|]. unfold Rel; cbn [st_tx st_common st_segwit st_taproot]; (split; [exact T|]); repeat split; congruence.
  - rewrite (compute_common_sig _ _ T). split; [reflexivity|]. unfold Rel; cbn [st_tx st_common st_segwit st_taproot]; (split; [exact T|]); repeat split; congruence. Qed.
Lemma Sim_taproot ps : Sim (taproot_cache_get ps) (taproot_cache_get ps).
Proof. intros s s' (T & C & S & P). unfold SighashImpl.taproot_cache_get. rewrite <- P. destruct (st_taproot s) eqn:Ec; cbn [fst snd].
  - split; [reflexivity|]. unfold Rel; cbn [st_tx st_common st_segwit st_taproot]; (split; [exact T|]); repeat split; congruence.
  - rewrite (compute_taproot_sig _ _ ps T). split; [reflexivity|]. unfold Rel; cbn [st_tx st_common st_segwit st_taproot]; (split; [exact T|]); repeat split; congruence. Qed.
Lemma Sim_segwit : Sim segwit_cache_get segwit_cache_get.
Proof. intros s s' R. pose proof R as (T & C & S & P). unfold SighashImpl.segwit_cache_get. rewrite <- S. destruct (st_segwit s) eqn:Ec; cbn [fst snd].
  - split; [reflexivity|exact R].
  - destruct (Sim_common s s' R) as [E R1]. destruct (common_cache_get s) as [s1 r], (common_cache_get s') as [s1' r']. cbn [fst snd] in *. subst r'.
    destruct r as [cc|e|]; cbn [fst snd]; try (split; [reflexivity|exact R1]). destruct R1 as (T1 & C1 & S1 & P1). split; [reflexivity|]. unfold Rel; cbn [st_tx st_common st_segwit st_taproot]; (split; [exact T1|]); repeat split; congruence. Qed.
(* a value of the transaction bound inside a query: the inputs at the same position are related *)
Lemma Sim_bind_nth_opt {B} l l' idx e (K K' : txin -> M B) : Forall2 in_sig_eq l l' -> (forall a a', in_sig_eq a a' -> Sim (K a) (K' a')) ->
  Sim (bind (lift (opt_ok (nth_error l idx) e)) K) (bind (lift (opt_ok (nth_error l' idx) e)) K').
Proof. intros F HK. pose proof (F2_nth' _ _ _ F idx) as N. destruct (nth_error l idx) as [a|], (nth_error l' idx) as [a'|]; try contradiction.
  - intros s s' R. unfold bind, lift, opt_ok. apply HK; assumption.
  - intros s s' R. unfold bind, lift, opt_ok. cbn. auto. Qed.
Lemma Sim_bind_nth_panic {B} l l' idx (K K' : txin -> M B) : Forall2 in_sig_eq l l' -> (forall a a', in_sig_eq a a' -> Sim (K a) (K' a')) ->
  Sim (bind (lift (match nth_error l idx with Some i => SOk i | None => SPanic end)) K) (bind (lift (match nth_error l' idx with Some i => SOk i | None => SPanic end)) K').
Proof. intros F HK. pose proof (F2_nth' _ _ _ F idx) as N. destruct (nth_error l idx) as [a|], (nth_error l' idx) as [a'|]; try contradiction.
  - intros s s' R. unfold bind, lift. apply HK; assumption.
  - intros s s' R. unfold bind, lift. cbn. auto. Qed.
Lemma Sim_mapM {A B} (f : A -> B) (m m' : M A) : Sim m m' -> Sim (mapM f m) (mapM f m').
Proof. intros S. unfold mapM. apply Sim_bind; [exact S|]. intros. apply Sim_ret. Qed.

(* reflexive simulation of a query body whose data no longer mentions the transaction *)
Ltac rsim := repeat
  match goal with
  | |- Sim (ret _) (ret _) => apply Sim_ret
  | |- Sim (lift _) (lift _) => apply Sim_lift
  | |- Sim common_cache_get _ => apply Sim_common
  | |- Sim segwit_cache_get _ => apply Sim_segwit
  | |- Sim (taproot_cache_get _) _ => apply Sim_taproot
  | |- Sim (bind _ _) (bind _ _) => apply Sim_bind; [|intro]
  | |- Sim (if ?b then _ else _) _ => destruct b
  | |- Sim (let '(_, _) := ?x in _) _ => destruct x
  | |- Sim (match ?x with Some _ => _ | None => _ end) _ => destruct x
  end.

Lemma check_all_sig pv t t' : tx_sig_eq t t' -> check_all pv t = check_all pv t'.
Proof. intros (_ & _ & I & _). unfold check_all. destruct pv; [reflexivity|]. now rewrite (F2_len _ _ _ I). Qed.

Theorem taproot_encode_sim idx pv annex leaf ty g :
  Sim (taproot_encode pt_ok maxvec H idx pv annex leaf ty g) (taproot_encode pt_ok maxvec H idx pv annex leaf ty g).
Proof. unfold taproot_encode. apply Sim_bind_tx. intros t t' E. pose proof E as (V & L & I & O).
  rewrite (check_all_sig pv t t' E), V, L, O, (F2_len _ _ _ I).
  apply Sim_bind; [apply Sim_lift|intros []]. destruct (schnorr_split ty) as [sighash acp]. cbv zeta.
  apply Sim_bind; [rsim|intro w1]. apply Sim_bind; [rsim|intro w2].
  apply Sim_bind.
  { destruct acp; [|apply Sim_ret]. apply Sim_bind_nth_opt; [exact I|]. intros a a' Ea. rewrite (sig_outpoint_flag _ _ Ea), (sig_has_issuance _ _ Ea).
    destruct Ea as (-> & _ & -> & -> & -> & ->). rsim. }
  intro w3. rsim. Qed.

Theorem segwit_encode_sim idx sc v ty : Sim (segwit_encode pt_ok maxvec H idx sc v ty) (segwit_encode pt_ok maxvec H idx sc v ty).
Proof. unfold segwit_encode. apply Sim_bind_tx. intros t t' E. pose proof E as (V & L & I & O). rewrite V, L, O.
  destruct (ecdsa_split ty) as [sighash acp]. cbv zeta.
  apply Sim_bind; [rsim|intro w1]. apply Sim_bind; [rsim|intro w2]. apply Sim_bind; [rsim|intro w3].
  apply Sim_bind_nth_panic; [exact I|]. intros a a' Ea. rewrite (sig_has_issuance _ _ Ea). destruct Ea as (-> & _ & -> & -> & _). rsim. Qed.

Lemma F2_enum_map {A B} (R : A -> A -> Prop) (f : nat * A -> B) : (forall n a b, R a b -> f (n, a) = f (n, b)) ->
  forall l l', Forall2 R l l' -> forall n, map f (enumerate_from n l) = map f (enumerate_from n l').
Proof. intros E l l' F. induction F; intros n; cbn; [reflexivity|]. now rewrite (E _ _ _ H0), IHF. Qed.
Lemma legacy_encode_tx_sig t t' idx sc ty : tx_sig_eq t t' -> legacy_encode_tx pt_ok maxvec t idx sc ty = legacy_encode_tx pt_ok maxvec t' idx sc ty.
Proof. intros (V & L & I & O). unfold legacy_encode_tx. rewrite V, L, O, (F2_len _ _ _ I). destruct (ecdsa_split ty) as [sighash acp].
  pose proof (F2_nth' _ _ _ I idx) as N.
  assert (X : forall n a b, in_sig_eq a b ->
     (fun '(n, input) => {| in_prev := in_prev input; in_pegin := in_pegin input; in_script := (if Nat.eqb n idx then sc else []);
        in_seq := (if negb (Nat.eqb n idx) && (ecdsa_eqb sighash ESingle || ecdsa_eqb sighash ENone) then 0 else in_seq input);
        in_iss := in_iss input; in_wit := empty_inwit |}) (n, a) =
     (fun '(n, input) => {| in_prev := in_prev input; in_pegin := in_pegin input; in_script := (if Nat.eqb n idx then sc else []);
        in_seq := (if negb (Nat.eqb n idx) && (ecdsa_eqb sighash ESingle || ecdsa_eqb sighash ENone) then 0 else in_seq input);
        in_iss := in_iss input; in_wit := empty_inwit |}) (n, b)).
  { intros n a b (-> & -> & -> & -> & _). reflexivity. }
  rewrite (F2_enum_map in_sig_eq _ X _ _ I 0).
  destruct (nth_error (tx_in t) idx) as [a|], (nth_error (tx_in t') idx) as [b|]; try contradiction; [|reflexivity].
  destruct N as (-> & -> & -> & -> & _). reflexivity. Qed.
Theorem legacy_encode_sim idx sc ty : Sim (legacy_encode pt_ok maxvec idx sc ty) (legacy_encode pt_ok maxvec idx sc ty).
Proof. unfold legacy_encode. apply Sim_bind_tx. intros t t' E. rewrite (legacy_encode_tx_sig t t' idx sc ty E). apply Sim_lift. Qed.
Theorem legacy_sighash_sim idx sc ty : Sim (legacy_sighash pt_ok maxvec H idx sc ty) (legacy_sighash pt_ok maxvec H idx sc ty).
Proof. unfold legacy_sighash. apply Sim_bind_tx. intros t t' (V & L & I & O). rewrite O, (F2_len _ _ _ I). destruct (ecdsa_split ty) as [sighash acp].
  match goal with |- Sim (if ?b then _ else _) _ => destruct b end; [apply Sim_ret|apply Sim_mapM, legacy_encode_sim]. Qed.

(* every query, and every pre-image writer *)
Theorem query_sim o : Sim (query pt_ok maxvec H Htag o) (query pt_ok maxvec H Htag o).
Proof. destruct o; cbn [query].
  - apply legacy_sighash_sim.
  - apply Sim_mapM, segwit_encode_sim.
  - apply Sim_bind; [apply Sim_lift|intro a]. apply Sim_mapM, taproot_encode_sim.
  - apply Sim_mapM, taproot_encode_sim.
  - apply Sim_mapM, taproot_encode_sim.
  - apply Sim_ret. Qed.
Theorem preimage_sim o : Sim (preimage pt_ok maxvec H o) (preimage pt_ok maxvec H o).
Proof. destruct o; cbn [preimage].
  - apply legacy_encode_sim.
  - apply segwit_encode_sim.
  - apply Sim_bind; [apply Sim_lift|intro a]. apply taproot_encode_sim.
  - apply taproot_encode_sim.
  - apply taproot_encode_sim.
  - apply Sim_ret. Qed.

(* ---------- operation sequences ---------- *)
(* the same operations, except that witness_mut may write different stacks *)
Definition op_sim (o o' : op) : Prop := o = o' \/ exists i w w', o = OWitnessMut i w /\ o' = OWitnessMut i w'.
Lemma Rel_init t t' : tx_sig_eq t t' -> Rel (init t) (init t').
Proof. intros E. unfold Rel, init; cbn. auto. Qed.
Lemma sig_set_witness a b w w' : in_sig_eq a b -> in_sig_eq (set_script_witness_in a w) (set_script_witness_in b w').
Proof. unfold in_sig_eq, set_script_witness_in, set_inwit. cbn. tauto. Qed.
Lemma F2_update_nth {A} (R : A -> A -> Prop) (f f' : A -> A) : (forall a b, R a b -> R (f a) (f' b)) ->
  forall l l', Forall2 R l l' -> forall n, Forall2 R (update_nth n f l) (update_nth n f' l').
Proof. intros E l l' F. induction F; intros [|n]; cbn; constructor; auto. Qed.
Lemma witness_mut_sim i w w' s s' : Rel s s' ->
  snd (witness_mut i w s) = snd (witness_mut i w' s') /\ Rel (fst (witness_mut i w s)) (fst (witness_mut i w' s')).
Proof. intros ((V & L & I & O) & C & S & P). unfold witness_mut; cbn [fst snd]. split; [now rewrite (F2_len _ _ _ I)|].
  unfold Rel, tx_sig_eq, set_script_witness; cbn. repeat split; auto. apply F2_update_nth; [|exact I]. intros. now apply sig_set_witness. Qed.
Lemma step_sim s s' o o' : Rel s s' -> op_sim o o' ->
  snd (step pt_ok maxvec H Htag s o) = snd (step pt_ok maxvec H Htag s' o') /\ Rel (fst (step pt_ok maxvec H Htag s o)) (fst (step pt_ok maxvec H Htag s' o')).
Proof. intros R [<-|(i & w & w' & -> & ->)].
  - destruct o as [? ? ?|? ? ? ?|? ? ? ? ? ?|? ? ? ?|? ? ? ? ?|i w]; unfold step;
      try (match goal with |- context [query ?a ?b ?c ?d ?o s] => destruct (query_sim o s s' R) as [E R1]; destruct (query a b c d o s) as [s1 r], (query a b c d o s') as [s1' r'] end;
           cbn [fst snd] in *; subst; auto).
    destruct (witness_mut_sim i w w s s' R) as [E R1]. destruct (witness_mut i w s) as [s1 b], (witness_mut i w s') as [s1' b']. cbn [fst snd] in *. subst. auto.
  - unfold step. destruct (witness_mut_sim i w w' s s' R) as [E R1]. destruct (witness_mut i w s) as [s1 b], (witness_mut i w' s') as [s1' b']. cbn [fst snd] in *. subst. auto. Qed.
Theorem run_sim : forall ops ops' s s', Rel s s' -> Forall2 op_sim ops ops' -> run pt_ok maxvec H Htag s ops = run pt_ok maxvec H Htag s' ops'.
Proof. induction ops as [|o ops IH]; intros ops' s s' R F; inversion F as [|? o' ? ops'' Ho Hr]; subst; cbn [run]; [reflexivity|].
  destruct (step_sim s s' o o' R Ho) as [E R1]. destruct (step pt_ok maxvec H Htag s o) as [s1 x], (step pt_ok maxvec H Htag s' o') as [s1' x']. cbn [fst snd] in *. subst.
  f_equal. now apply IH. Qed.
Lemma op_sim_refl ops : Forall2 op_sim ops ops.
Proof. induction ops; constructor; auto. now left. Qed.

(* the stateless functions (a fresh cache per query) *)
Theorem impl_sig t t' o : tx_sig_eq t t' ->
  impl_msg pt_ok maxvec H t o = impl_msg pt_ok maxvec H t' o /\ impl_digest pt_ok maxvec H Htag t o = impl_digest pt_ok maxvec H Htag t' o.
Proof. intros E. unfold impl_msg, impl_digest. split; [apply (preimage_sim o _ _ (Rel_init _ _ E))|apply (query_sim o _ _ (Rel_init _ _ E))]. Qed.
End WIT.
