(* C03 — sensitivity at the digest level for the three algorithms. *)
From Coq Require Import List Arith NArith Bool Lia.
From Coq.Strings Require Import Byte.
From EV Require Import Base.Bytes Base.Codec Model.Tx Model.SighashSpec Model.SighashCommit
  Proofs.Sighash Proofs.SighashCommit Proofs.SighashCommitTap Proofs.SighashCommitSeg Proofs.SighashCommitLeg Proofs.SighashCommitConv.
Import ListNotations.
Open Scope N_scope.
Set Default Timeout 120.

Section DIGESTS.
Variable pt_ok : bytes -> bool.
Variable H : bytes -> bytes.
Variable Htag : bytes -> bytes.
Hypothesis Hlen : forall x, length (H x) = 32%nat.
Notation canon_tx := (canon_tx pt_ok). Notation canon_out := (canon_out pt_ok).

Lemma option_map_some {A B} (f : A -> B) o y : option_map f o = Some y -> exists x, o = Some x /\ y = f x.
Proof. destruct o; cbn; intros E; inversion E; eauto. Qed.

Theorem legacy_digest_sensitive t t' idx idx' sc sc' ht ht' d :
  spec_legacy_digest pt_ok H true t idx sc ht = Some d -> spec_legacy_digest pt_ok H true t' idx' sc' ht' = Some d ->
  canon_tx t = true -> canon_tx t' = true -> leg_query_ok sc ht = true -> leg_query_ok sc' ht' = true ->
  legacy_committed t idx sc ht = legacy_committed t' idx' sc' ht' \/ Collision H \/ Preimage H uint256_one.
Proof. unfold spec_legacy_digest. intros D D' C C' Q Q'.
  destruct (nth_error (tx_in t) idx) as [me|] eqn:N; [|discriminate]. destruct (nth_error (tx_in t') idx') as [me'|] eqn:N'; [|discriminate].
  destruct (legacy_single_bug t idx ht) eqn:B, (legacy_single_bug t' idx' ht') eqn:B'.
  - left. unfold legacy_committed. now rewrite N, N', B, B'.
  - apply Some_inj in D. subst d. apply option_map_some in D' as (m' & _ & E). right. right. exists (H m'). symmetry. exact E.
  - apply Some_inj in D'. subst d. apply option_map_some in D as (m & _ & E). right. right. exists (H m). symmetry. exact E.
  - apply option_map_some in D as (m & S & E). apply option_map_some in D' as (m' & S' & E'). rewrite E' in E. unfold sha256d in E.
    destruct (dhash_eq H _ _ E) as [Em|K]; [|right; left; exact K]. subst m'. left. eapply legacy_msg_sensitive; eauto. Qed.

Theorem segwit_digest_sensitive t t' idx idx' sc sc' v v' ht ht' d :
  spec_segwit_digest pt_ok H t idx sc v ht = Some d -> spec_segwit_digest pt_ok H t' idx' sc' v' ht' = Some d ->
  canon_tx t = true -> canon_tx t' = true -> seg_query_ok pt_ok sc v ht = true -> seg_query_ok pt_ok sc' v' ht' = true ->
  segwit_committed pt_ok t idx sc v ht = segwit_committed pt_ok t' idx' sc' v' ht' \/ Collision H \/ Preimage H zero256.
Proof. unfold spec_segwit_digest. intros D D' C C' Q Q'.
  apply option_map_some in D as (m & S & E). apply option_map_some in D' as (m' & S' & E'). rewrite E' in E. unfold sha256d in E.
  destruct (dhash_eq H _ _ E) as [Em|K]; [|right; left; exact K]. subst m'. eapply segwit_msg_sensitive; eauto. Qed.

Theorem taproot_digest_sensitive t t' spent spent' idx idx' annex annex' leaf leaf' ht ht' g g' d :
  spec_taproot_digest pt_ok H Htag t spent idx annex leaf ht g = Some d -> spec_taproot_digest pt_ok H Htag t' spent' idx' annex' leaf' ht' g' = Some d ->
  canon_tx t = true -> canon_tx t' = true -> forallb canon_out spent = true -> forallb canon_out spent' = true ->
  tap_query_ok g annex leaf idx = true -> tap_query_ok g' annex' leaf' idx' = true ->
  taproot_committed t spent idx annex leaf ht g = taproot_committed t' spent' idx' annex' leaf' ht' g' \/ Collision H \/ Collision Htag.
Proof. unfold spec_taproot_digest. intros D D' C C' CS CS' Q Q'.
  apply option_map_some in D as (m & S & E). apply option_map_some in D' as (m' & S' & E'). rewrite E' in E.
  destruct (hash_eq Htag _ _ E) as [Em|K]; [|right; right; exact K]. subst m'.
  destruct (taproot_msg_sensitive pt_ok H Hlen _ _ _ _ _ _ _ _ _ _ _ _ _ _ _ S' S C' C CS' CS Q' Q) as [X|K]; [left; now symmetry|right; left; exact K]. Qed.

(* ---- the exact characterisation: digests agree iff the committed views agree (up to collisions) ---- *)
Theorem legacy_digest_complete t t' idx idx' sc sc' ht ht' d d' :
  spec_legacy_digest pt_ok H true t idx sc ht = Some d -> spec_legacy_digest pt_ok H true t' idx' sc' ht' = Some d' ->
  legacy_committed t idx sc ht = legacy_committed t' idx' sc' ht' -> d = d'.
Proof. unfold spec_legacy_digest. intros D D' E. pose proof E as E0. unfold legacy_committed in E.
  destruct (nth_error (tx_in t) idx) as [me|] eqn:N; [|discriminate]. destruct (nth_error (tx_in t') idx') as [me'|] eqn:N'; [|discriminate].
  destruct (legacy_single_bug t idx ht) eqn:B, (legacy_single_bug t' idx' ht') eqn:B'; try discriminate E.
  - congruence.
  - apply option_map_some in D as (m & S & ->). apply option_map_some in D' as (m' & S' & ->). f_equal. eapply legacy_committed_complete; eauto. Qed.
Theorem segwit_digest_complete t t' idx idx' sc sc' v v' ht ht' d d' :
  spec_segwit_digest pt_ok H t idx sc v ht = Some d -> spec_segwit_digest pt_ok H t' idx' sc' v' ht' = Some d' ->
  segwit_committed pt_ok t idx sc v ht = segwit_committed pt_ok t' idx' sc' v' ht' -> d = d'.
Proof. unfold spec_segwit_digest. intros D D' E. apply option_map_some in D as (m & S & ->). apply option_map_some in D' as (m' & S' & ->).
  f_equal. eapply segwit_committed_complete; eauto. Qed.
Theorem taproot_digest_complete t t' spent spent' idx idx' annex annex' leaf leaf' ht ht' g g' d d' :
  spec_taproot_digest pt_ok H Htag t spent idx annex leaf ht g = Some d -> spec_taproot_digest pt_ok H Htag t' spent' idx' annex' leaf' ht' g' = Some d' ->
  taproot_committed t spent idx annex leaf ht g = taproot_committed t' spent' idx' annex' leaf' ht' g' -> d = d'.
Proof. unfold spec_taproot_digest. intros D D' E. apply option_map_some in D as (m & S & ->). apply option_map_some in D' as (m' & S' & ->).
  f_equal. eapply taproot_committed_complete; eauto. Qed.
End DIGESTS.
