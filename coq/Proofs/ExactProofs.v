(* C05 — exact-value and exact-asset proofs (Model/ExactProofs.v): soundness (an accepted proof pins the committed value / asset),
   completeness (the genuine proof is accepted), refusal of every proof whose stated range has more than one element, and
   panic-freedom of the translated acceptance condition. *)
From Coq Require Import List NArith ZArith Bool Lia Setoid Morphisms.
From Coq Require Import ZifyBool ZifyN.
From Coq.Strings Require Import Byte.
From EV Require Import Base.Bytes Base.Zn Base.FreeMod Gen.Tables Gen.SrcExact Model.Ideal Model.ExactProofs Proofs.Ideal.
Import ListNotations.
Open Scope Z_scope.

(* ---- the translated acceptance condition, characterised *)
Lemma src_bvp_accept_spec s e v : src_bvp_accept (s, e) v = true -> (1 <= e)%N -> s = v /\ e = (v + 1)%N.
Proof.
  unfold src_bvp_accept. cbn [fst snd]. intros A L. apply andb_true_iff in A as [A B].
  apply N.eqb_eq in A, B. split; [exact A|lia].
Qed.
Lemma src_bvp_accept_exact v : src_bvp_accept (v, (v + 1)%N) v = true.
Proof. unfold src_bvp_accept. cbn [fst snd]. apply andb_true_iff. split; apply N.eqb_eq; lia. Qed.

(* ---- what a verifying proof-with-range says *)
Lemma rr_verify_sound rr c spk gen e : rr_verify rr c spk gen = Some e ->
  rp_verify (rr_rp rr) c spk gen = true /\ 0 <= rr_min rr <= rp_value (rr_rp rr) /\ rp_value (rr_rp rr) <= rr_max rr <= U64_MAX
  /\ e = (Z.to_N (rr_min rr), Z.to_N (rr_max rr + 1)).
Proof.
  unfold rr_verify. destruct (rp_verify (rr_rp rr) c spk gen); cbn [andb]; [|discriminate].
  destruct (rr_min rr <=? rp_value (rr_rp rr)) eqn:A; cbn [andb]; [|discriminate].
  destruct (rp_value (rr_rp rr) <=? rr_max rr) eqn:B; cbn [andb]; [|discriminate].
  destruct (0 <=? rr_min rr) eqn:C; cbn [andb]; [|discriminate].
  destruct (rr_max rr <=? U64_MAX) eqn:D; [|discriminate].
  intros [= <-]. repeat split; lia.
Qed.

(* SOUNDNESS: an accepted exact-value proof means the commitment opens to exactly the explicit value on that generator *)
Theorem bvp_sound rr v gen c : bvp_verify rr v gen c = true ->
  geq c (commit (Z.of_N v) gen (rp_vbf (rr_rp rr))) /\ rp_value (rr_rp rr) = Z.of_N v /\ rr_min rr = Z.of_N v /\ rr_max rr = Z.of_N v.
Proof.
  unfold bvp_verify. destruct (rr_verify rr c [] gen) as [e|] eqn:V; [|discriminate]. intro A.
  destruct (rr_verify_sound _ _ _ _ _ V) as (RV & (L0 & L1) & (L2 & L3) & ->).
  apply src_bvp_accept_spec in A; [|lia]. destruct A as [A B].
  assert (rr_min rr = Z.of_N v) by lia. assert (rr_max rr = Z.of_N v) by lia.
  assert (E : rp_value (rr_rp rr) = Z.of_N v) by lia.
  destruct (rp_verify_sound _ _ _ _ RV) as (G & _). rewrite E in G. repeat split; assumption.
Qed.
(* every proof whose stated range has more than one element is refused, whatever value is claimed *)
Theorem bvp_wide_refused rr v gen c : rr_min rr < rr_max rr -> bvp_verify rr v gen c = false.
Proof.
  intro W. destruct (bvp_verify rr v gen c) eqn:A; [|reflexivity].
  destruct (bvp_sound _ _ _ _ A) as (_ & _ & E1 & E2). lia.
Qed.
(* another value than the committed one is refused *)
Theorem bvp_other_value_refused rr v gen c : rp_value (rr_rp rr) <> Z.of_N v -> bvp_verify rr v gen c = false.
Proof.
  intro W. destruct (bvp_verify rr v gen c) eqn:A; [|reflexivity].
  destruct (bvp_sound _ _ _ _ A) as (_ & E & _). contradiction.
Qed.
(* the u64 subtraction `e.end - 1` never goes below zero *)
Theorem bvp_no_panic rr v gen c : bvp_verify_safe rr v gen c = true.
Proof.
  unfold bvp_verify_safe. destruct (rr_verify rr c [] gen) as [e|] eqn:V; [|reflexivity].
  destruct (rr_verify_sound _ _ _ _ _ V) as (_ & (L0 & L1) & (L2 & L3) & ->).
  unfold src_bvp_accept_safe. cbn [fst snd]. destruct (Z.to_N (rr_min rr) =? v)%N; [|reflexivity]. apply N.leb_le. lia.
Qed.

(* COMPLETENESS: the genuine proof of blind_value_proof is accepted for its own value *)
Lemma prove_range_exact v : 0 <= v -> prove_range v (-1) 0 v = Some (v, v).
Proof.
  intro L. unfold prove_range. rewrite Z.ltb_irrefl. cbn [orb].
  replace (64 <? 0) with false by reflexivity. replace (0 <? 0) with false by reflexivity.
  replace (-1 <? -1) with false by reflexivity. replace (18 <? -1) with false by reflexivity.
  replace (0 <? -1) with false by reflexivity. cbn [orb].
  destruct (v =? U64_MAX); reflexivity.
Qed.
Theorem bvp_complete v gen vbf : 0 <= v <= U64_MAX ->
  exists rr, bvp_new v (commit v gen vbf) gen vbf = Some rr /\ bvp_verify rr (Z.to_N v) gen (commit v gen vbf) = true.
Proof.
  intros [L U]. unfold bvp_new, rr_new. rewrite (prove_range_exact v L). eexists. split; [reflexivity|].
  unfold bvp_verify, rr_verify, rp_verify. cbn [rr_rp rr_min rr_max rp_intact rp_commit rp_script rp_gen rp_value rp_vbf].
  rewrite !geqb_refl. cbn [bytes_eqb andb]. unfold U64_MAX in *.
  replace (0 <=? v) with true by lia. replace (v <? 2 ^ 64) with true by lia. replace (v <=? v) with true by lia.
  replace (v <=? 2 ^ 64 - 1) with true by lia. cbn [andb].
  replace (Z.to_N (v + 1)) with (Z.to_N v + 1)%N by lia. apply src_bvp_accept_exact.
Qed.

(* ---- the prover's range: it contains the value, and for the parameters of output range proofs it has more than one element *)
Lemma bitlen_bound v : 0 < v -> v < 2 ^ bitlen v.
Proof. intro P. unfold bitlen. pose proof (Z.log2_spec v P) as [_ H]. rewrite <- Z.add_1_r in H. exact H. Qed.
Lemma bitlen_pos v : 0 < v -> 1 <= bitlen v.
Proof. intro P. unfold bitlen. pose proof (Z.log2_nonneg v). lia. Qed.
Theorem prove_range_contains m e b v lo hi : prove_range m e b v = Some (lo, hi) -> lo <= v <= hi.
Proof.
  unfold prove_range.
  set (mb := Z.min b (if m =? 0 then 64 else 64 - bitlen m)). clearbody mb.
  set (vb := if v - m =? 0 then 1 else bitlen (v - m)).
  assert (VB : v - m < 2 ^ vb /\ 1 <= vb).
  { subst vb. destruct (v - m =? 0) eqn:Z0; [apply Z.eqb_eq in Z0; rewrite Z0; split; [reflexivity|lia]|]. apply Z.eqb_neq in Z0.
    destruct (Z_lt_le_dec 0 (v - m)) as [P|P]; [split; [apply bitlen_bound|apply bitlen_pos]; exact P|].
    split; [|unfold bitlen; rewrite (Z.log2_nonpos (v - m)) by lia; lia].
    assert (0 < 2 ^ bitlen (v - m)) by (apply Z.pow_pos_nonneg; [lia|unfold bitlen; pose proof (Z.log2_nonneg (v - m)); lia]). lia. }
  clearbody vb. destruct VB as [VB1 VB2].
  assert (X : 2 ^ vb <= 2 ^ Z.max vb mb) by (apply Z.pow_le_mono_r; lia).
  revert X VB1. generalize (2 ^ Z.max vb mb) (2 ^ vb). intros p q X VB1.
  destruct ((v <? m) || (64 <? b) || (b <? 0) || (e <? -1) || (18 <? e)) eqn:G; [discriminate|].
  destruct (0 <? e) eqn:PE; [discriminate|].
  apply orb_false_iff in G as [G _]. apply orb_false_iff in G as [G _]. apply orb_false_iff in G as [G _]. apply orb_false_iff in G as [G _].
  apply Z.ltb_ge in G.
  destruct (0 <=? (if m =? U64_MAX then -1 else e)); [|intros [= <- <-]; lia].
  destruct ((negb (m =? 0) && (I64_MAX <? v)) || (negb (v =? 0) && (I64_MAX <=? m))); [discriminate|].
  intros [= <- <-]. lia.
Qed.
(* a range proof made with exp = 0 (every output range proof) states at least two values: it can never pass as an exact-value proof *)
Theorem prove_range_exp0_wide m b v lo hi : m <> U64_MAX -> prove_range m 0 b v = Some (lo, hi) -> lo < hi.
Proof.
  intro NM. unfold prove_range.
  set (mb := Z.min b (if m =? 0 then 64 else 64 - bitlen m)). clearbody mb.
  set (vb := if v - m =? 0 then 1 else bitlen (v - m)).
  assert (VB : 1 <= vb).
  { subst vb. destruct (v - m =? 0) eqn:Z0; [lia|]. apply Z.eqb_neq in Z0.
    destruct (Z_lt_le_dec 0 (v - m)) as [P|P]; [apply bitlen_pos; exact P|].
    unfold bitlen. rewrite (Z.log2_nonpos (v - m)) by lia. lia. }
  clearbody vb.
  assert (X : 2 ^ 1 <= 2 ^ Z.max vb mb) by (apply Z.pow_le_mono_r; lia).
  change (2 ^ 1) with 2 in X. revert X. generalize (2 ^ Z.max vb mb). intros p X.
  destruct ((v <? m) || (64 <? b) || (b <? 0) || (0 <? -1) || (18 <? 0)); [discriminate|].
  replace (0 <? 0) with false by reflexivity.
  destruct (m =? U64_MAX) eqn:E; [apply Z.eqb_eq in E; contradiction|]. replace (0 <=? 0) with true by reflexivity.
  destruct ((negb (m =? 0) && (I64_MAX <? v)) || (negb (v =? 0) && (I64_MAX <=? m))); [discriminate|].
  intros [= <- <-]. lia.
Qed.
Theorem wide_proof_refused m b c value vbf msg key gen rr v' gen' c' :
  m <> U64_MAX -> rr_new m c value vbf msg [] key 0 b gen = Some rr -> bvp_verify rr v' gen' c' = false.
Proof.
  intros NM. unfold rr_new. destruct (prove_range m 0 b value) as [[lo hi]|] eqn:PR; [|discriminate]. intros [= <-].
  apply bvp_wide_refused. cbn [rr_min rr_max]. exact (prove_range_exp0_wide _ _ _ _ _ NM PR).
Qed.

(* ---- exact-asset proofs *)
Theorem bap_sound sp a g : bap_verify sp a g = true -> geq g (asset_gen a (sp_diff sp)).
Proof.
  unfold bap_verify. intro V. destruct (sp_verify_sound _ _ _ V) as (d & NE & G & _).
  destruct (sp_idx sp) as [|[|n]]; cbn [nth_error] in NE; try discriminate. injection NE as <-.
  unfold asset_gen. exact G.
Qed.
Theorem bap_complete a abf : exists sp, bap_new a abf = Some sp /\ bap_verify sp a (asset_gen a abf) = true.
Proof.
  unfold bap_new, sp_new. cbn [find_tag]. rewrite N.eqb_refl. eexists. split; [reflexivity|].
  unfold bap_verify, sp_verify. cbn [sp_intact sp_gen sp_domain sp_idx sp_diff map fst nth_error geqb_list]. rewrite !geqb_refl. cbn [andb].
  apply geqb_spec. intro k. unfold asset_gen. rewrite !coeff_add, !coeff_scale, coeff_G, coeff_H. destruct (N.eqb k (kH a)), (N.eqb k kG); zn_ring.
Qed.
(* the proof names one asset: accepted for two asset ids only if they are the same *)
Theorem bap_binds sp a b g : bap_verify sp a g = true -> bap_verify sp b g = true -> a = b.
Proof.
  intros A B. apply bap_sound in A, B. rewrite A in B. specialize (B (kH a)).
  rewrite !coeff_asset_gen_H, N.eqb_refl in B. destruct (N.eqb_spec a b); [assumption|discriminate].
Qed.

(* ---- bridge to C09: Model/PsetBlind.v states its exact-value clause with `blind_value_proof_verify` (the ideal proof verifies and its value is
   the claimed one, no range). On the proofs blind_value_proof makes — stated range = the single committed value — that is the translated condition *)
From EV Require Import Model.Blind Model.PsetBlind.
Theorem bvp_verify_is_pset_clause rp v gen c : 0 <= v <= U64_MAX ->
  bvp_verify (mkRR rp (rp_value rp) (rp_value rp)) (Z.to_N v) gen c = blind_value_proof_verify rp v gen c.
Proof.
  intros [L U]. unfold bvp_verify, blind_value_proof_verify, rr_verify. cbn [rr_rp rr_min rr_max].
  destruct (rp_verify rp c [] gen) eqn:V; cbn [andb]; [|reflexivity].
  destruct (rp_verify_sound _ _ _ _ V) as (_ & (L0 & L1) & _). unfold U64_MAX in *.
  replace (rp_value rp <=? rp_value rp) with true by lia. replace (0 <=? rp_value rp) with true by lia.
  replace (rp_value rp <=? 2 ^ 64 - 1) with true by lia. cbn [andb].
  unfold src_bvp_accept. cbn [fst snd].
  destruct (rp_value rp =? v) eqn:E.
  - apply Z.eqb_eq in E. subst v. apply andb_true_iff. split; apply N.eqb_eq; lia.
  - apply Z.eqb_neq in E. apply andb_false_iff. left. apply N.eqb_neq. lia.
Qed.
