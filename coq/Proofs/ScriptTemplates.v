(* Proofs for C16, part 2: byte-form characterisations of the template predicates; Address::from_script / script_pubkey. *)
From Coq Require Import List NArith ZArith Bool Lia ZifyN ZifyBool ZifyNat.
From Coq.Strings Require Import Byte.
From EV Require Import Base.Bytes Gen.Tables Model.Script Proofs.Script.
Import ListNotations.
Ltac Zify.zify_post_hook ::= Z.div_mod_to_equations.
Open Scope N_scope.

(* ------------------------------------------------------------------ templates *)
Lemma skipn_last_one (k : nat) : forall s : bytes, length s = S k -> skipn k s = [nth k s x00].
Proof. induction k as [|k IH]; intros [|a s] L; cbn in L; try discriminate.
  - destruct s; [reflexivity|discriminate].
  - cbn [skipn nth]. apply IH. lia. Qed.
Lemma skipn_last_two (k : nat) : forall s : bytes, length s = S (S k) -> skipn k s = [nth k s x00; nth (S k) s x00].
Proof. induction k as [|k IH]; intros [|a s] L; cbn in L; try discriminate.
  - destruct s as [|b [|c s]]; try discriminate. reflexivity.
  - cbn [skipn nth]. apply IH. lia. Qed.
Lemma tail_split1 (rest : bytes) n : length rest = S n -> rest = firstn n rest ++ [nth n rest x00] /\ length (firstn n rest) = n.
Proof. intros L. split; [|rewrite firstn_length; lia]. rewrite <- (firstn_skipn n rest) at 1. f_equal. now apply skipn_last_one. Qed.
Lemma tail_split2 (rest : bytes) n : length rest = S (S n) ->
  rest = firstn n rest ++ [nth n rest x00; nth (S n) rest x00] /\ length (firstn n rest) = n.
Proof. intros L. split; [|rewrite firstn_length; lia]. rewrite <- (firstn_skipn n rest) at 1. f_equal. now apply skipn_last_two. Qed.
Lemma at_byte s i n : at_ s i = n -> nth i s x00 = n2b n.
Proof. unfold at_. apply n2b_lit. Qed.
Lemma nth_app_at (h l : bytes) k : nth (length h + k) (h ++ l) x00 = nth k l x00.
Proof. apply app_nth2_plus. Qed.

Ltac split_andb := repeat match goal with H : (_ && _) = true |- _ => apply andb_true_iff in H; destruct H end.
Ltac eqb_to_eq := repeat match goal with
  | H : (_ =? _) = true |- _ => apply N.eqb_eq in H
  | H : len_is _ _ = true |- _ => apply Nat.eqb_eq in H end.

Theorem is_p2sh_iff s : is_p2sh s = true <-> exists h, length h = 20%nat /\ s = xa9 :: x14 :: h ++ [x87].
Proof. split.
  - unfold is_p2sh. intros H. split_andb. eqb_to_eq.
    destruct s as [|b0 [|b1 rest]]; try discriminate. cbn [length] in *. 
    apply at_byte in H2, H1, H0. cbn [nth] in *. subst b0 b1.
    destruct (tail_split1 rest 20) as [E L]; [lia|]. exists (firstn 20 rest). split; [exact L|]. rewrite H0 in E. rewrite E at 1. reflexivity.
  - intros (h & L & ->). unfold is_p2sh, len_is, at_. cbn [length nth]. rewrite app_length, L.
    replace (nth 20 (h ++ [x87]) x00) with x87 by (rewrite <- L at 1; rewrite <- (Nat.add_0_r (length h)); now rewrite nth_app_at). reflexivity. Qed.

Lemma nth_lit_app (h l : bytes) (n k : nat) : length h = n -> nth (n + k) (h ++ l) x00 = nth k l x00.
Proof. intros <-. apply app_nth2_plus. Qed.
Ltac nth_app h l n k L := let N := fresh in pose proof (nth_lit_app h l n k L) as N; cbn [Nat.add] in N; rewrite N; clear N.

Theorem is_p2pkh_iff s : is_p2pkh s = true <-> exists h, length h = 20%nat /\ s = x76 :: xa9 :: x14 :: h ++ [x88; xac].
Proof. split.
  - unfold is_p2pkh. intros H. split_andb. eqb_to_eq.
    destruct s as [|b0 [|b1 [|b2 rest]]]; try discriminate. cbn [length] in *.
    apply at_byte in H0, H1, H2, H3, H4. cbn [nth] in *. subst b0 b1 b2.
    destruct (tail_split2 rest 20) as [E L]; [lia|]. exists (firstn 20 rest). split; [exact L|]. rewrite H1, H0 in E. rewrite E at 1. reflexivity.
  - intros (h & L & ->). unfold is_p2pkh, len_is, at_. cbn [length nth]. rewrite app_length, L.
    nth_app h [x88; xac] 20%nat 0%nat L. nth_app h [x88; xac] 20%nat 1%nat L. reflexivity. Qed.

Theorem is_p2pk_iff s : is_p2pk s = true <->
  (exists k, length k = 65%nat /\ s = x41 :: k ++ [xac]) \/ (exists k, length k = 33%nat /\ s = x21 :: k ++ [xac]).
Proof. split.
  - unfold is_p2pk. intros H. apply orb_true_iff in H as [H|H]; split_andb; eqb_to_eq; [left|right];
      (destruct s as [|b0 rest]; try discriminate; cbn [length] in *; apply at_byte in H0, H1; cbn [nth] in *; subst b0).
    + destruct (tail_split1 rest 65) as [E L]; [lia|]. exists (firstn 65 rest). split; [exact L|]. rewrite H0 in E. rewrite E at 1. reflexivity.
    + destruct (tail_split1 rest 33) as [E L]; [lia|]. exists (firstn 33 rest). split; [exact L|]. rewrite H0 in E. rewrite E at 1. reflexivity.
  - intros [(k & L & ->)|(k & L & ->)]; unfold is_p2pk, len_is, at_; cbn [length nth]; rewrite app_length, L.
    + nth_app k [xac] 65%nat 0%nat L. reflexivity.
    + nth_app k [xac] 33%nat 0%nat L. reflexivity. Qed.

Lemma two_bytes_form (s : bytes) (a b : N) (n : nat) : length s = S (S n) -> at_ s 0 = a -> at_ s 1 = b ->
  exists h, length h = n /\ s = n2b a :: n2b b :: h.
Proof. destruct s as [|b0 [|b1 rest]]; try discriminate. cbn [length]. intros L A B. apply at_byte in A, B. cbn [nth] in *. subst.
  exists rest. split; [lia|reflexivity]. Qed.

Theorem is_v0_p2wpkh_iff s : is_v0_p2wpkh s = true <-> exists h, length h = 20%nat /\ s = x00 :: x14 :: h.
Proof. split.
  - unfold is_v0_p2wpkh. intros H. split_andb. eqb_to_eq. exact (two_bytes_form s _ _ 20 H H1 H0).
  - intros (h & L & ->). unfold is_v0_p2wpkh, len_is, at_. cbn [length nth]. rewrite L. reflexivity. Qed.
Theorem is_v0_p2wsh_iff s : is_v0_p2wsh s = true <-> exists h, length h = 32%nat /\ s = x00 :: x20 :: h.
Proof. split.
  - unfold is_v0_p2wsh. intros H. split_andb. eqb_to_eq. exact (two_bytes_form s _ _ 32 H H1 H0).
  - intros (h & L & ->). unfold is_v0_p2wsh, len_is, at_. cbn [length nth]. rewrite L. reflexivity. Qed.
Theorem is_v1_p2tr_iff s : is_v1_p2tr s = true <-> exists h, length h = 32%nat /\ s = x51 :: x20 :: h.
Proof. split.
  - unfold is_v1_p2tr. intros H. split_andb. eqb_to_eq. exact (two_bytes_form s _ _ 32 H H1 H0).
  - intros (h & L & ->). unfold is_v1_p2tr, len_is, at_. cbn [length nth]. rewrite L. reflexivity. Qed.

(* version opcode followed by one direct push that ends the script *)
Definition is_version_opcode (v : byte) : Prop := v = x00 \/ 0x51 <= b2n v <= 0x60.
Theorem is_witness_program_iff s : is_witness_program s = true <->
  exists v prog, is_version_opcode v /\ 2 <= lenN prog <= 40 /\ s = v :: n2b (lenN prog) :: prog.
Proof. unfold is_witness_program, OP_PUSHNUM_1, OP_PUSHNUM_16, OP_PUSHBYTES_2, OP_PUSHBYTES_40. split.
  - intros H. split_andb. destruct s as [|v [|l prog]]; [exfalso; vm_compute in H; discriminate H|exfalso; vm_compute in H; discriminate H|].
    unfold at_ in *. cbn [nth] in *. rewrite !lenN_cons in *. exists v, prog.
    assert (E : lenN prog = b2n l) by lia. split; [|split; [lia|rewrite E, n2b_b2n; reflexivity]].
    match goal with V : (_ || _) = true |- _ => apply orb_true_iff in V as [Z|R] end; [left; apply b2n_inj; cbn; lia|right; lia].
  - intros (v & prog & V & L & ->). unfold at_. cbn [nth]. rewrite !lenN_cons. rewrite b2n_n2b_small by lia.
    assert (((b2n v =? 0) || (81 <=? b2n v) && (b2n v <=? 96)) = true) as ->.
    { destruct V as [-> | R]; [reflexivity|]. apply orb_true_iff. right. apply andb_true_iff. split; lia. }
    repeat (apply andb_true_iff; split); lia. Qed.

(* version 1..16 followed by one direct push of 2..40 bytes that ends the script *)
Theorem is_v1plus_p2witprog_iff s : is_v1plus_p2witprog s = true <->
  exists v prog, 0x51 <= b2n v <= 0x60 /\ 2 <= lenN prog <= 40 /\ s = v :: n2b (lenN prog) :: prog.
Proof. unfold is_v1plus_p2witprog, OP_PUSHNUM_1, OP_PUSHNUM_16, OP_PUSHBYTES_2, OP_PUSHBYTES_40. split.
  - intros H. split_andb. destruct s as [|v [|l prog]]; [exfalso; vm_compute in H; discriminate H|exfalso; vm_compute in H; discriminate H|].
    unfold at_ in *. cbn [nth] in *. rewrite !lenN_cons in *. exists v, prog.
    assert (E : lenN prog = b2n l) by lia. split; [lia|split; [lia|rewrite E, n2b_b2n; reflexivity]].
  - intros (v & prog & V & L & ->). unfold at_. cbn [nth]. rewrite !lenN_cons. rewrite b2n_n2b_small by lia.
    repeat (apply andb_true_iff; split); lia. Qed.

Theorem is_op_return_iff s : is_op_return s = true <-> exists r, s = x6a :: r.
Proof. unfold is_op_return, at_. split.
  - destruct s as [|b r]; [discriminate|]. cbn [is_empty negb andb nth]. intros H. apply N.eqb_eq in H. exists r. f_equal. apply b2n_inj. exact H.
  - intros (r & ->). reflexivity. Qed.
Theorem is_provably_unspendable_iff s : is_provably_unspendable s = true <-> s = [] \/ (exists r, s = x6a :: r) \/ 10000 < lenN s.
Proof. unfold is_provably_unspendable. fold (is_op_return s). unfold MAX_SCRIPT_SIZE. rewrite !orb_true_iff, is_op_return_iff. split.
  - intros [[H|H]|H]; [auto|right; right; lia|left; destruct s; [reflexivity|discriminate]].
  - intros [->|[H|H]]; [right; reflexivity|auto|left; right; lia]. Qed.

(* ------------------------------------------------------------------ Address::from_script, script_pubkey *)
Lemma slice_mid (pre h post : bytes) (a b : nat) : length pre = a -> (b - a)%nat = length h -> slice (pre ++ h ++ post) a b = h.
Proof. intros <- E. unfold slice. rewrite skipn_len_app, E. apply firstn_len_app. Qed.

Theorem from_script_cases s :
  (exists h, length h = 20%nat /\ s = x76 :: xa9 :: x14 :: h ++ [x88; xac] /\ from_script s = Val (Some (PubkeyHash h)))
  \/ (exists h, length h = 20%nat /\ s = xa9 :: x14 :: h ++ [x87] /\ from_script s = Val (Some (ScriptHash h)))
  \/ (exists h, length h = 20%nat /\ s = x00 :: x14 :: h /\ from_script s = Val (Some (WitnessProgram 0 h)))
  \/ (exists h, length h = 32%nat /\ s = x00 :: x20 :: h /\ from_script s = Val (Some (WitnessProgram 0 h)))
  \/ (exists v prog, 1 <= v <= 16 /\ 2 <= lenN prog <= 40 /\ s = n2b (0x50 + v) :: n2b (lenN prog) :: prog
                     /\ from_script s = Val (Some (WitnessProgram v prog)))
  \/ (from_script s = Val None /\ is_p2pkh s = false /\ is_p2sh s = false /\ is_v0_p2wpkh s = false /\ is_v0_p2wsh s = false
      /\ is_v1plus_p2witprog s = false).
Proof. unfold from_script.
  destruct (is_p2pkh s) eqn:E1.
  { left. apply is_p2pkh_iff in E1 as (h & L & ->). exists h. split; [exact L|]. split; [reflexivity|].
    replace (slice (x76 :: xa9 :: x14 :: h ++ [x88; xac]) 3 23) with h by (symmetry; apply (slice_mid [x76; xa9; x14] h [x88; xac]); cbn; lia). unfold arr20, len_is. rewrite L. reflexivity. }
  destruct (is_p2sh s) eqn:E2.
  { right; left. apply is_p2sh_iff in E2 as (h & L & ->). exists h. split; [exact L|]. split; [reflexivity|].
    replace (slice (xa9 :: x14 :: h ++ [x87]) 2 22) with h by (symmetry; apply (slice_mid [xa9; x14] h [x87]); cbn; lia). unfold arr20, len_is. rewrite L. reflexivity. }
  destruct (is_v0_p2wpkh s) eqn:E3.
  { right; right; left. apply is_v0_p2wpkh_iff in E3 as (h & L & ->). exists h. split; [exact L|]. split; [reflexivity|].
    replace (slice (x00 :: x14 :: h) 2 22) with h; [reflexivity|]. symmetry. rewrite <- (app_nil_r h) at 1. apply (slice_mid [x00; x14] h []); cbn; lia. }
  destruct (is_v0_p2wsh s) eqn:E4.
  { right; right; right; left. apply is_v0_p2wsh_iff in E4 as (h & L & ->). exists h. split; [exact L|]. split; [reflexivity|].
    replace (slice (x00 :: x20 :: h) 2 34) with h; [reflexivity|]. symmetry. rewrite <- (app_nil_r h) at 1. apply (slice_mid [x00; x20] h []); cbn; lia. }
  destruct (is_v1plus_p2witprog s) eqn:E5.
  { right; right; right; right; left. apply is_v1plus_p2witprog_iff in E5 as (v & prog & V & L & ->).
    exists (b2n v - 80), prog. split; [lia|]. split; [exact L|].
    replace (80 + (b2n v - 80)) with (b2n v) by lia. rewrite n2b_b2n. split; [reflexivity|].
    unfold at_. cbn [nth skipn]. destruct (N.ltb_spec (b2n v) 80); [lia|]. destruct (N.leb_spec 32 (b2n v - 80)); [lia|]. reflexivity. }
  right; right; right; right; right. auto 10. Qed.

Lemma from_script_total s : exists r, from_script s = Val r.
Proof. destruct (from_script_cases s) as [(h & _ & _ & E)|[(h & _ & _ & E)|[(h & _ & _ & E)|[(h & _ & _ & E)|[(v & prog & _ & _ & _ & E)|(E & _)]]]]];
  eexists; exact E. Qed.

Lemma push_slice_direct b d : lenN d <= 75 -> push_slice b d = Val (mkB (rev_append d (n2b (lenN d) :: rbytes b)) None).
Proof. intros L. unfold push_slice, push_header, OP_PUSHDATA1. destruct (N.ltb_spec (lenN d) 76); [|lia]. reflexivity. Qed.
Lemma rev'_spec (l : bytes) : rev' l = rev l.
Proof. unfold rev'. symmetry. apply rev_alt. Qed.

Lemma spk_p2pkh p h : length h = 20%nat -> script_pubkey p (PubkeyHash h) = Val (x76 :: xa9 :: x14 :: h ++ [x88; xac]).
Proof. intros L. assert (LN : lenN h = 20) by (unfold lenN; rewrite L; reflexivity).
  unfold script_pubkey, build. cbn [run step obind push_opcode]. rewrite push_slice_direct by (rewrite LN; lia). cbn [obind rbytes last_op push_opcode].
  unfold into_script, push_opcode, b_new. cbn [rbytes]. rewrite rev'_spec, LN. cbn [rev]. rewrite rev_append_rev, rev_app_distr, rev_involutive.
  cbn [rev app]. rewrite <- ?app_assoc. reflexivity. Qed.
Lemma spk_p2sh p h : length h = 20%nat -> script_pubkey p (ScriptHash h) = Val (xa9 :: x14 :: h ++ [x87]).
Proof. intros L. assert (LN : lenN h = 20) by (unfold lenN; rewrite L; reflexivity).
  unfold script_pubkey, build. cbn [run step obind push_opcode]. rewrite push_slice_direct by (rewrite LN; lia). cbn [obind rbytes last_op push_opcode].
  unfold into_script, push_opcode, b_new. cbn [rbytes]. rewrite rev'_spec, LN. cbn [rev]. rewrite rev_append_rev, rev_app_distr, rev_involutive.
  cbn [rev app]. rewrite <- ?app_assoc. reflexivity. Qed.
Lemma spk_witness p v prog : v <= 16 -> lenN prog <= 75 ->
  script_pubkey p (WitnessProgram v prog) = Val ((if v =? 0 then x00 else n2b (0x50 + v)) :: n2b (lenN prog) :: prog).
Proof. intros V L. unfold script_pubkey, build. cbn [run step obind].
  assert (PI : push_int p b_new (Z.of_N v) = Val (push_opcode b_new (if v =? 0 then x00 else n2b (0x50 + v)))).
  { unfold push_int. destruct (N.eqb_spec v 0) as [->|NZ]; [reflexivity|].
    assert (((Z.of_N v =? -1) || (1 <=? Z.of_N v) && (Z.of_N v <=? 16))%Z = true) as -> by lia.
    do 3 f_equal. unfold OP_TRUE. rewrite Z.mod_small by lia. lia. }
  rewrite PI. cbn [obind]. rewrite push_slice_direct by exact L. cbn [obind rbytes push_opcode b_new].
  unfold into_script, push_opcode, b_new. cbn [rbytes]. rewrite rev'_spec, rev_append_rev, rev_app_distr, rev_involutive. reflexivity. Qed.

(* whenever from_script yields an address, its script_pubkey is the original script — including the F14 class *)
Theorem from_script_spk p s a : from_script s = Val (Some a) -> script_pubkey p a = Val s.
Proof. intros F. destruct (from_script_cases s) as [(h & L & -> & E)|[(h & L & -> & E)|[(h & L & -> & E)|[(h & L & -> & E)|[(v & prog & V & L & -> & E)|(E & _)]]]]];
  rewrite E in F; inversion F; subst a.
  - now apply spk_p2pkh.
  - now apply spk_p2sh.
  - rewrite spk_witness; [|lia|unfold lenN; rewrite L; cbn; lia]. unfold lenN. rewrite L. reflexivity.
  - rewrite spk_witness; [|lia|unfold lenN; rewrite L; cbn; lia]. unfold lenN. rewrite L. reflexivity.
  - rewrite spk_witness by lia. destruct (N.eqb_spec v 0); [lia|]. reflexivity. Qed.

(* ------------------------------------------------------------------ from_script <-> templates *)
Lemma template_predicate s : address_template s ->
  is_p2pkh s = true \/ is_p2sh s = true \/ is_v0_p2wpkh s = true \/ is_v0_p2wsh s = true \/ is_v1plus_p2witprog s = true.
Proof. intros [H|[H|[H|[H|H]]]].
  - left. now apply is_p2pkh_iff.
  - right; left. now apply is_p2sh_iff.
  - right; right; left. now apply is_v0_p2wpkh_iff.
  - right; right; right; left. now apply is_v0_p2wsh_iff.
  - right; right; right; right. now apply is_v1plus_p2witprog_iff. Qed.

Theorem from_script_some_iff s : (exists a, from_script s = Val (Some a)) <-> address_template s.
Proof. split.
  - intros [a F]. destruct (from_script_cases s) as [(h & L & E & _)|[(h & L & E & _)|[(h & L & E & _)|[(h & L & E & _)|[(v & prog & V & L & E & _)|(E & _)]]]]].
    + left. eauto.
    + right; left. eauto.
    + right; right; left. eauto.
    + right; right; right; left. eauto.
    + right; right; right; right. exists (n2b (80 + v)), prog. rewrite b2n_n2b_small by lia. split; [lia|]. split; [exact L|exact E].
    + congruence.
  - intros T. destruct (from_script_cases s) as [(h & _ & _ & E)|[(h & _ & _ & E)|[(h & _ & _ & E)|[(h & _ & _ & E)|[(v & prog & _ & _ & _ & E)|(E & N1 & N2 & N3 & N4 & N5)]]]]];
      try (eexists; exact E). exfalso. apply template_predicate in T. intuition congruence. Qed.

(* the payload of a derived address is one whose text form round-trips (C06's well-formedness, payload part) *)
Theorem from_script_wf s a : from_script s = Val (Some a) -> payload_wf a = true.
Proof. intros F. destruct (from_script_cases s) as [(h & L & _ & E)|[(h & L & _ & E)|[(h & L & _ & E)|[(h & L & _ & E)|[(v & prog & V & L & S & E)|(E & _)]]]]];
  rewrite E in F; inversion F; subst a; cbn [payload_wf]; unfold len_is, lenN; rewrite ?L; try reflexivity.
  fold (lenN prog). destruct (N.eqb_spec v 0); [lia|]. cbn [negb orb]. rewrite andb_true_r. repeat (apply andb_true_iff; split); lia. Qed.
