(* Bytes, byte<->N conversions, hex and decimal text helpers used by models and the driver. *)
From Coq Require Import List NArith ZArith Lia Bool ZifyN ZifyBool ZifyNat.
From Coq.Strings Require Import Byte.
Import ListNotations.
Ltac Zify.zify_post_hook ::= Z.div_mod_to_equations.
Open Scope N_scope.
Arguments N.add : simpl never. Arguments N.mul : simpl never. Arguments N.div : simpl never.
Arguments N.modulo : simpl never. Arguments N.sub : simpl never. Arguments N.pow : simpl never.

Definition bytes := list byte.

Definition b2n (b : byte) : N := Byte.to_N b.
Definition n2b (n : N) : byte := match Byte.of_N (n mod 256) with Some b => b | None => x00 end.

Lemma b2n_lt b : b2n b < 256.
Proof. pose proof (Byte.to_N_bounded b). unfold b2n. lia. Qed.
Lemma n2b_b2n b : n2b (b2n b) = b.
Proof. unfold n2b. rewrite N.mod_small by apply b2n_lt. unfold b2n. now rewrite Byte.of_to_N. Qed.
Lemma b2n_n2b n : b2n (n2b n) = n mod 256.
Proof. unfold n2b, b2n. destruct (Byte.of_N (n mod 256)) eqn:E.
  - now apply Byte.to_of_N in E.
  - exfalso. apply Byte.of_N_None_iff in E. pose proof (N.mod_upper_bound n 256). lia. Qed.
Lemma b2n_n2b_small n : n < 256 -> b2n (n2b n) = n.
Proof. intros. rewrite b2n_n2b. now apply N.mod_small. Qed.
Lemma b2n_inj a b : b2n a = b2n b -> a = b.
Proof. intros E. rewrite <- (n2b_b2n a), <- (n2b_b2n b). now rewrite E. Qed.
Lemma n2b_lit b n : b2n b = n -> b = n2b n. Proof. intros <-. now rewrite n2b_b2n. Qed.

Definition byte_eqb (a b : byte) : bool := Byte.eqb a b.
Lemma byte_eqb_spec a b : reflect (a = b) (byte_eqb a b).
Proof. unfold byte_eqb. destruct (Byte.eqb a b) eqn:E; constructor.
  - now apply Byte.byte_dec_bl.
  - intro H. subst. pose proof (Byte.byte_dec_lb (eq_refl b)). congruence. Qed.

Fixpoint bytes_eqb (a b : bytes) : bool :=
  match a, b with [], [] => true | x :: a', y :: b' => byte_eqb x y && bytes_eqb a' b' | _, _ => false end.
Lemma bytes_eqb_spec a : forall b, reflect (a = b) (bytes_eqb a b).
Proof. induction a as [|x a IH]; intros [|y b]; cbn; try (constructor; congruence).
  destruct (byte_eqb_spec x y); cbn; [|constructor; congruence].
  destruct (IH b); constructor; congruence. Qed.
Lemma bytes_eqb_refl a : bytes_eqb a a = true.
Proof. destruct (bytes_eqb_spec a a); congruence. Qed.

(* ---- little endian / big endian fixed width ---- *)
Fixpoint le_enc (k : nat) (n : N) : bytes := match k with O => [] | S k' => n2b n :: le_enc k' (n / 256) end.
Fixpoint le_val (bs : bytes) : N := match bs with [] => 0 | b :: r => b2n b + 256 * le_val r end.
Definition be_enc (k : nat) (n : N) : bytes := rev (le_enc k n).
Definition be_val (bs : bytes) : N := le_val (rev bs).

Lemma le_enc_length k : forall n, length (le_enc k n) = k.
Proof. induction k; intros; cbn; auto. Qed.
Lemma le_val_lt bs : le_val bs < 256 ^ N.of_nat (length bs).
Proof. induction bs as [|b r IH]; cbn [le_val length].
  - cbn. lia.
  - rewrite Nnat.Nat2N.inj_succ, N.pow_succ_r'. pose proof (b2n_lt b). nia. Qed.
Lemma le_enc_val bs : le_enc (length bs) (le_val bs) = bs.
Proof. induction bs as [|b r IH]; cbn [le_val length le_enc]; [reflexivity|].
  pose proof (b2n_lt b) as Hb.
  assert (Hd : (b2n b + 256 * le_val r) / 256 = le_val r) by lia. rewrite Hd, IH. f_equal.
  unfold n2b. assert (Hm : (b2n b + 256 * le_val r) mod 256 = b2n b) by lia. rewrite Hm. unfold b2n. now rewrite Byte.of_to_N. Qed.
Lemma le_val_enc k : forall n, n < 256 ^ N.of_nat k -> le_val (le_enc k n) = n.
Proof. induction k as [|k IH]; intros n H; cbn [le_enc le_val].
  - cbn in H. lia.
  - rewrite Nnat.Nat2N.inj_succ, N.pow_succ_r' in H.
    rewrite IH by (apply N.div_lt_upper_bound; lia). rewrite b2n_n2b. lia. Qed.
Lemma be_enc_length k n : length (be_enc k n) = k.
Proof. unfold be_enc. now rewrite rev_length, le_enc_length. Qed.
Lemma be_enc_val bs : be_enc (length bs) (be_val bs) = bs.
Proof. unfold be_enc, be_val. rewrite <- (rev_length bs), le_enc_val. apply rev_involutive. Qed.
Lemma be_val_enc k n : n < 256 ^ N.of_nat k -> be_val (be_enc k n) = n.
Proof. intros. unfold be_enc, be_val. rewrite rev_involutive. now apply le_val_enc. Qed.
Lemma be_val_lt bs : be_val bs < 256 ^ N.of_nat (length bs).
Proof. unfold be_val. rewrite <- rev_length. apply le_val_lt. Qed.

(* ---- splitting ---- *)
Definition take (n : nat) (bs : bytes) : option (bytes * bytes) :=
  if Nat.leb n (length bs) then Some (firstn n bs, skipn n bs) else None.
Lemma take_spec n bs a r : take n bs = Some (a, r) -> bs = a ++ r /\ length a = n.
Proof. unfold take. destruct (Nat.leb_spec n (length bs)); [|discriminate]. intros E. inversion E; subst.
  split; [symmetry; apply firstn_skipn|]. rewrite firstn_length. lia. Qed.
Lemma take_app a r : take (length a) (a ++ r) = Some (a, r).
Proof. unfold take. rewrite app_length. destruct (Nat.leb_spec (length a) (length a + length r)); [|lia].
  rewrite firstn_app, Nat.sub_diag, firstn_O, app_nil_r, firstn_all.
  rewrite skipn_app, Nat.sub_diag, skipn_all. reflexivity. Qed.

(* ---- hex text (ASCII codes as bytes) ---- *)
Definition hexdigit (n : N) : byte := if n <? 10 then n2b (48 + n) else n2b (87 + n).
Definition hex_of_byte (b : byte) : bytes := [hexdigit (b2n b / 16); hexdigit (b2n b mod 16)].
Definition hex_of_bytes (bs : bytes) : bytes := flat_map hex_of_byte bs.
Definition unhexdigit (c : byte) : option N :=
  let n := b2n c in
  if (48 <=? n) && (n <=? 57) then Some (n - 48)
  else if (97 <=? n) && (n <=? 102) then Some (n - 87)
  else if (65 <=? n) && (n <=? 70) then Some (n - 55) else None.
Fixpoint bytes_of_hex (s : bytes) : option bytes :=
  match s with
  | [] => Some []
  | a :: b :: r => match unhexdigit a, unhexdigit b, bytes_of_hex r with
                   | Some x, Some y, Some t => Some (n2b (16 * x + y) :: t) | _, _, _ => None end
  | _ => None end.

(* decimal *)
Fixpoint dec_digits (fuel : nat) (n : N) (acc : bytes) : bytes :=
  match fuel with O => acc | S f => let acc' := n2b (48 + n mod 10) :: acc in
    if n / 10 =? 0 then acc' else dec_digits f (n / 10) acc' end.
Definition dec_of_N (n : N) : bytes := dec_digits (S (N.to_nat (N.log2 n))) n [].
Fixpoint N_of_dec_aux (s : bytes) (acc : N) : option N :=
  match s with [] => Some acc | c :: r => let n := b2n c in
    if (48 <=? n) && (n <=? 57) then N_of_dec_aux r (10 * acc + (n - 48)) else None end.
Definition N_of_dec (s : bytes) : option N := match s with [] => None | _ => N_of_dec_aux s 0 end.

(* split on a separator byte *)
Fixpoint split_on (sep : byte) (s : bytes) (cur : bytes) : list bytes :=
  match s with [] => [rev_append cur []] | c :: r => if byte_eqb c sep then rev_append cur [] :: split_on sep r [] else split_on sep r (c :: cur) end.
Definition words (s : bytes) : list bytes := split_on x20 s [].

(* string notation for list byte literals: "abc"%lb : blit, coerced to list byte *)
Inductive blit := BLit (l : list byte).
Definition unlit (x : blit) : list byte := match x with BLit l => l end.
Definition blit_of (l : list byte) : blit := BLit l.
Coercion unlit : blit >-> list.
Declare Scope lb_scope. Delimit Scope lb_scope with lb.
String Notation blit blit_of unlit : lb_scope.
Bind Scope lb_scope with blit.
Example lb_test : unlit "ab"%lb = [x61; x62]. Proof. reflexivity. Qed.
