(* The ideal commitment group (C04, C05, C09): formal Z/qn-linear combinations over the basis {G} ∪ {H_a | a : asset tag}.
   An element is a list of (basis element, coefficient) terms; its meaning is its coefficient function `coeff`
   (always canonical, in [0,qn)). Two elements are THE SAME group element iff their coefficient functions agree (`geq`),
   which is decidable (`geqb`, over the finitely many basis elements that occur). All operations respect `geq`.
   "Ideal" = the basis elements are linearly independent BY CONSTRUCTION: nobody knows a discrete-log relation between G
   and the asset generators H_a (in libsecp256k1-zkp: hash-to-curve of the asset tag). *)
From Coq Require Import ZArith NArith Lia List Bool Setoid Morphisms.
From EV Require Import Base.Zn.
Import ListNotations.
Open Scope Z_scope.

Definition bkey := N.                       (* 0 = G ; N.succ a = H_a for the asset tag a (a 256-bit number) *)
Definition kG : bkey := 0%N.
Definition kH (a : N) : bkey := N.succ a.
Definition gel := list (bkey * Z).

Fixpoint coeff (x : gel) (k : bkey) : Z :=
  match x with
  | [] => 0
  | (k', c) :: r => if N.eqb k k' then zadd c (coeff r k) else coeff r k
  end.
Definition gzero : gel := [].
Definition gadd (x y : gel) : gel := x ++ y.
Definition gscale (c : Z) (x : gel) : gel := map (fun t => (fst t, c * snd t)) x.
Definition gneg (x : gel) : gel := gscale (-1) x.
Definition gsum (l : list gel) : gel := concat l.
Definition gG : gel := [(kG, 1)].
Definition gH (a : N) : gel := [(kH a, 1)].

Definition geq (x y : gel) : Prop := forall k, coeff x k = coeff y k.
Definition geqb (x y : gel) : bool := forallb (fun k => coeff x k =? coeff y k) (map fst x ++ map fst y).

(* Generator::new_blinded(tag, abf) = H_tag + abf·G ; new_unblinded = H_tag *)
Definition asset_gen (a : N) (abf : Z) : gel := gadd (gH a) (gscale abf gG).
(* PedersenCommitment::new(value, vbf, gen) = value·gen + vbf·G ; new_unblinded has vbf = 0 *)
Definition commit (v : Z) (gen : gel) (vbf : Z) : gel := gadd (gscale v gen) (gscale vbf gG).

Lemma coeff_range x k : in_zn (coeff x k).
Proof.
  induction x as [|[k' c] r IH]; cbn [coeff].
  - pose proof qn_pos. unfold in_zn. lia.
  - destruct (N.eqb k k'). + apply zadd_range. + exact IH.
Qed.
Lemma coeff_mod x k : (coeff x k) mod qn = coeff x k.
Proof. apply zn_small, coeff_range. Qed.
Lemma coeff_add x y k : coeff (gadd x y) k = zadd (coeff x k) (coeff y k).
Proof.
  unfold gadd. induction x as [|[k' c] r IH]; cbn [app coeff].
  - rewrite zadd_0_l, coeff_mod. reflexivity.
  - destruct (N.eqb k k'). + rewrite IH. apply zadd_assoc. + exact IH.
Qed.
Lemma coeff_scale c x k : coeff (gscale c x) k = zmul c (coeff x k).
Proof.
  unfold gscale. induction x as [|[k' c'] r IH]; cbn [map coeff fst snd].
  - unfold zmul. rewrite Z.mul_0_r. reflexivity.
  - destruct (N.eqb k k'). + rewrite IH. zn_ring. + exact IH.
Qed.
Lemma coeff_zero k : coeff gzero k = 0. Proof. reflexivity. Qed.
Lemma coeff_gsum l k : coeff (gsum l) k = zsum (map (fun x => coeff x k) l).
Proof.
  unfold gsum. induction l as [|x l IH]; cbn [concat map zsum fold_right]. - reflexivity.
  - fold (zsum (map (fun x => coeff x k) l)). rewrite <- IH. apply coeff_add.
Qed.
Lemma coeff_G k : coeff gG k = if N.eqb k kG then 1 else 0.
Proof. unfold gG. cbn [coeff]. destruct (N.eqb k kG); reflexivity. Qed.
Lemma coeff_H a k : coeff (gH a) k = if N.eqb k (kH a) then 1 else 0.
Proof. unfold gH. cbn [coeff]. destruct (N.eqb k (kH a)); reflexivity. Qed.
Lemma kH_not_G a : N.eqb (kH a) kG = false.
Proof. unfold kH, kG. apply N.eqb_neq. lia. Qed.
Lemma kG_not_H a : N.eqb kG (kH a) = false.
Proof. unfold kH, kG. apply N.eqb_neq. lia. Qed.
Lemma kH_inj a b : N.eqb (kH a) (kH b) = N.eqb a b.
Proof. unfold kH. destruct (N.eqb_spec a b) as [->|N]. - apply N.eqb_refl. - apply N.eqb_neq. lia. Qed.

Lemma coeff_notin x k : ~ In k (map fst x) -> coeff x k = 0.
Proof.
  induction x as [|[k' c] r IH]; cbn [map fst In coeff]; intro NI. - reflexivity.
  - destruct (N.eqb_spec k k') as [->|_]. + exfalso. apply NI. now left. + apply IH. intro. apply NI. now right.
Qed.
Lemma geqb_spec x y : geqb x y = true <-> geq x y.
Proof.
  unfold geqb, geq. rewrite forallb_forall. split.
  - intros F k. destruct (in_dec N.eq_dec k (map fst x ++ map fst y)) as [I|NI].
    + apply Z.eqb_eq, F, I.
    + rewrite in_app_iff in NI. rewrite !coeff_notin; tauto.
  - intros E k _. apply Z.eqb_eq, E.
Qed.
Lemma geqb_false x y : geqb x y = false <-> ~ geq x y.
Proof. rewrite <- geqb_spec. destruct (geqb x y); split; congruence. Qed.

Global Instance geq_equiv : Equivalence geq.
Proof. split; red; unfold geq; intros; congruence. Qed.
Global Instance gadd_geq : Proper (geq ==> geq ==> geq) gadd.
Proof. intros x x' Ex y y' Ey k. rewrite !coeff_add, Ex, Ey. reflexivity. Qed.
Global Instance gscale_geq : Proper (eq ==> geq ==> geq) gscale.
Proof. intros c c' -> x x' Ex k. rewrite !coeff_scale, Ex. reflexivity. Qed.
Global Instance coeff_geq : Proper (geq ==> eq ==> eq) coeff.
Proof. intros x x' Ex k k' ->. apply Ex. Qed.
Lemma geqb_refl x : geqb x x = true. Proof. apply geqb_spec. reflexivity. Qed.
Lemma geqb_sym x y : geqb x y = geqb y x.
Proof.
  destruct (geqb y x) eqn:E.
  - apply geqb_spec. symmetry. now apply geqb_spec.
  - apply geqb_false. intro G. apply geqb_false in E. apply E. now symmetry.
Qed.
Lemma geqb_proper x x' y y' : geq x x' -> geq y y' -> geqb x y = geqb x' y'.
Proof.
  intros Ex Ey. destruct (geqb x' y') eqn:E.
  - apply geqb_spec. apply geqb_spec in E. now rewrite Ex, Ey.
  - apply geqb_false. apply geqb_false in E. intro G. apply E. now rewrite <- Ex, <- Ey.
Qed.

(* list-wise equality of group elements (surjection-proof domains) *)
Fixpoint geqb_list (l l' : list gel) : bool :=
  match l, l' with
  | [], [] => true
  | x :: r, y :: r' => geqb x y && geqb_list r r'
  | _, _ => false
  end.
Lemma geqb_list_spec l : forall l', geqb_list l l' = true <-> Forall2 geq l l'.
Proof.
  induction l as [|x r IH]; intros [|y r']; cbn [geqb_list]; split; intro H; try discriminate; try constructor; try inversion H; subst.
  - apply andb_true_iff in H as [A B]. now apply geqb_spec.
  - apply andb_true_iff in H as [A B]. now apply IH.
  - apply andb_true_iff. split. + now apply geqb_spec. + now apply IH.
Qed.
Lemma geqb_list_refl l : geqb_list l l = true.
Proof. induction l; cbn [geqb_list]; [reflexivity|]. now rewrite geqb_refl. Qed.

(* coefficients of generators and commitments *)
Lemma coeff_asset_gen_G a abf : coeff (asset_gen a abf) kG = abf mod qn.
Proof.
  unfold asset_gen. rewrite coeff_add, coeff_scale, coeff_H, coeff_G, kG_not_H, N.eqb_refl.
  unfold zadd, zmul. rewrite Z.mul_1_r, Z.add_0_l. apply zn_idem.
Qed.
Lemma coeff_asset_gen_H a abf b : coeff (asset_gen a abf) (kH b) = if N.eqb b a then 1 else 0.
Proof.
  unfold asset_gen. rewrite coeff_add, coeff_scale, coeff_H, coeff_G, kH_not_G, kH_inj.
  unfold zadd, zmul. rewrite Z.mul_0_r, Z.add_0_r. destruct (N.eqb b a); reflexivity.
Qed.
Lemma coeff_commit v gen vbf k :
  coeff (commit v gen vbf) k = zadd (zmul v (coeff gen k)) (if N.eqb k kG then vbf mod qn else 0).
Proof.
  unfold commit. rewrite coeff_add, !coeff_scale, coeff_G. f_equal.
  destruct (N.eqb k kG); unfold zmul. - now rewrite Z.mul_1_r. - now rewrite Z.mul_0_r.
Qed.
(* every key is G or some H_a *)
Lemma bkey_cases (k : bkey) : k = kG \/ exists a, k = kH a.
Proof. unfold kG, kH. destruct (N.eq_dec k 0) as [->|NZ]. - now left. - right. exists (N.pred k). lia. Qed.
