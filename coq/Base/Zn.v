(* Scalars modulo the secp256k1 group order (C04, C05, C09).
   A scalar is a `Z`; every operation returns the canonical representative in [0, qn). Blinding factors (`Tweak`s) are
   32-byte big-endian numbers < qn, amounts are u64 — both embed as themselves.
   Ring identities are proved through the congruence `eqn` (setoid rewriting with Z's ring operations), tactic `zn_ring`. *)
From Coq Require Import ZArith Lia List Zdiv Setoid Morphisms Permutation.
Import ListNotations.
Open Scope Z_scope.

(* group order n of secp256k1 (libsecp256k1 scalar_impl.h, constants SECP256K1_N_0..7) *)
Definition qn : Z := 0xFFFFFFFFFFFFFFFFFFFFFFFFFFFFFFFEBAAEDCE6AF48A03BBFD25E8CD0364141.
Lemma qn_pos : 0 < qn. Proof. reflexivity. Qed.
Lemma qn_big : 2 ^ 255 < qn. Proof. reflexivity. Qed.
Lemma qn_lt : qn < 2 ^ 256. Proof. reflexivity. Qed.

Definition zn (a : Z) : Z := a mod qn.
Definition zadd (a b : Z) : Z := (a + b) mod qn.
Definition zsub (a b : Z) : Z := (a - b) mod qn.
Definition zmul (a b : Z) : Z := (a * b) mod qn.
Definition zneg (a : Z) : Z := (- a) mod qn.
Definition zsum (l : list Z) : Z := fold_right zadd 0 l.
Definition in_zn (a : Z) : Prop := 0 <= a < qn.
Definition in_znb (a : Z) : bool := (0 <=? a) && (a <? qn).

Global Opaque qn.

Definition eqn (a b : Z) : Prop := a mod qn = b mod qn.
Global Instance eqn_equiv : Equivalence eqn.
Proof. split; red; unfold eqn; intros; congruence. Qed.
Global Instance add_eqn : Proper (eqn ==> eqn ==> eqn) Z.add. Proof. exact (Zplus_eqm qn). Qed.
Global Instance sub_eqn : Proper (eqn ==> eqn ==> eqn) Z.sub. Proof. exact (Zminus_eqm qn). Qed.
Global Instance mul_eqn : Proper (eqn ==> eqn ==> eqn) Z.mul. Proof. exact (Zmult_eqm qn). Qed.
Global Instance opp_eqn : Proper (eqn ==> eqn) Z.opp. Proof. exact (Zopp_eqm qn). Qed.
Lemma mod_eqn a : eqn (a mod qn) a. Proof. apply Zmod_eqm. Qed.

(* closes goals `e1 = e2` where both sides are built from zadd/zsub/zmul/zneg/zn (outermost one of them) and equal as
   integer polynomials *)
Ltac zn_unfold := unfold zadd, zsub, zmul, zneg, zn in *.
Ltac zn_ring :=
  zn_unfold;
  match goal with |- ?a mod qn = ?b mod qn => change (eqn a b) end;
  repeat match goal with |- context [(?a mod qn)%Z] => rewrite (mod_eqn a) end;
  unfold eqn; f_equal; ring.

Lemma zn_range a : in_zn (a mod qn).
Proof. unfold in_zn. pose proof qn_pos. apply Z.mod_pos_bound. lia. Qed.
Lemma zadd_range a b : in_zn (zadd a b). Proof. apply zn_range. Qed.
Lemma zsub_range a b : in_zn (zsub a b). Proof. apply zn_range. Qed.
Lemma zmul_range a b : in_zn (zmul a b). Proof. apply zn_range. Qed.
Lemma zneg_range a : in_zn (zneg a). Proof. apply zn_range. Qed.
Lemma zn_small a : in_zn a -> a mod qn = a.
Proof. unfold in_zn. intros. apply Z.mod_small. lia. Qed.
Lemma zn_idem a : (a mod qn) mod qn = a mod qn.
Proof. pose proof qn_pos. apply Z.mod_mod. lia. Qed.
Lemma in_znb_spec a : in_znb a = true <-> in_zn a.
Proof. unfold in_znb, in_zn. rewrite Bool.andb_true_iff, Z.leb_le, Z.ltb_lt. tauto. Qed.

Lemma zadd_comm a b : zadd a b = zadd b a. Proof. zn_ring. Qed.
Lemma zadd_assoc a b c : zadd a (zadd b c) = zadd (zadd a b) c. Proof. zn_ring. Qed.
Lemma zadd_0_l a : zadd 0 a = a mod qn. Proof. unfold zadd. f_equal. Qed.
Lemma zadd_0_r a : zadd a 0 = a mod qn. Proof. unfold zadd. f_equal. lia. Qed.
Lemma zmul_comm a b : zmul a b = zmul b a. Proof. zn_ring. Qed.
Lemma zsub_diag a : zsub a a = 0. Proof. unfold zsub. rewrite Z.sub_diag. reflexivity. Qed.
Lemma zadd_mod_l a b : zadd (a mod qn) b = zadd a b. Proof. zn_ring. Qed.
Lemma zadd_mod_r a b : zadd a (b mod qn) = zadd a b. Proof. zn_ring. Qed.

Lemma zsum_range l : in_zn (zsum l).
Proof. destruct l; cbn [zsum fold_right]. - pose proof qn_pos. unfold in_zn. lia. - apply zadd_range. Qed.
Lemma zsum_mod l : (zsum l) mod qn = zsum l.
Proof. apply zn_small, zsum_range. Qed.
Lemma zsum_app l1 l2 : zsum (l1 ++ l2) = zadd (zsum l1) (zsum l2).
Proof.
  induction l1 as [|a l1 IH]; cbn [app zsum fold_right].
  - fold (zsum l2). rewrite zadd_0_l, zsum_mod. reflexivity.
  - fold (zsum (l1 ++ l2)) (zsum l1). rewrite IH. apply zadd_assoc.
Qed.
Lemma zsum_cons a l : zsum (a :: l) = zadd a (zsum l). Proof. reflexivity. Qed.
Lemma zsum_perm l l' : Permutation l l' -> zsum l = zsum l'.
Proof.
  induction 1; cbn [zsum fold_right]; try congruence.
  - fold (zsum l) (zsum l'). congruence.
  - fold (zsum l). rewrite !zadd_assoc. f_equal. apply zadd_comm.
Qed.
(* the canonical sum is the integer sum reduced once *)
Definition isum (l : list Z) : Z := fold_right Z.add 0 l.
Lemma zsum_isum l : zsum l = (isum l) mod qn.
Proof.
  induction l as [|a l IH]; cbn [zsum isum fold_right]. - reflexivity.
  - fold (zsum l) (isum l). rewrite IH. zn_ring.
Qed.
Lemma isum_app l1 l2 : isum (l1 ++ l2) = isum l1 + isum l2.
Proof. induction l1 as [|a l1 IH]; cbn [app isum fold_right]. - reflexivity. - fold (isum (l1 ++ l2)) (isum l1). rewrite IH. ring. Qed.

(* ---------------------------------------------------------------------------------------------------------------
   secp256k1_pedersen_blind_generator_blind_sum as called by compute_adaptive_blinding_factor / ValueBlindingFactor::last:
   entries are (value, generator blind = abf, value blind = vbf); the first |ins| addends are negated, the last entry is
   (value, abf, placeholder 0); result = 0 - sum. *)
Definition vb (x : Z * Z * Z) : Z := let '(v, abf, vbf) := x in zadd (zmul v abf) vbf.
Definition blind_sum_addend (negate : bool) (x : Z * Z * Z) : Z := if negate then zneg (vb x) else vb x.
Definition last_vbf (value abf : Z) (ins outs : list (Z * Z * Z)) : Z :=
  let addends := map (blind_sum_addend true) ins ++ map (blind_sum_addend false) (outs ++ [(value, abf, 0)]) in
  let sum := fold_left zadd addends 0 in
  zadd 0 (zneg sum).

Lemma eqn_mod a b : eqn a b -> a mod qn = b mod qn. Proof. exact (fun H => H). Qed.
Lemma zsum_eqn l : eqn (zsum l) (isum l).
Proof. unfold eqn. rewrite zsum_isum. apply zn_idem. Qed.
Lemma fold_left_zadd l : forall acc, eqn (fold_left zadd l acc) (acc + isum l).
Proof.
  induction l as [|a l IH]; intro acc; cbn [fold_left isum fold_right].
  - rewrite Z.add_0_r. reflexivity.
  - fold (isum l). rewrite IH. unfold zadd. rewrite mod_eqn. unfold eqn. f_equal. ring.
Qed.
Lemma isum_addend_neg l : eqn (isum (map (blind_sum_addend true) l)) (- isum (map vb l)).
Proof.
  induction l as [|a l IH]; cbn [map isum fold_right]. - reflexivity.
  - fold (isum (map (blind_sum_addend true) l)) (isum (map vb l)). rewrite IH. cbn [blind_sum_addend]. unfold zneg.
    rewrite mod_eqn. unfold eqn. f_equal. ring.
Qed.
Lemma isum_addend_pos l : isum (map (blind_sum_addend false) l) = isum (map vb l).
Proof. induction l as [|a l IH]; cbn [map isum fold_right]. - reflexivity. - fold (isum (map (blind_sum_addend false) l)) (isum (map vb l)). rewrite IH. reflexivity. Qed.

(* the explicit formula of DESIGN section 6 (C04):  Σ_in (v·abf+vbf) − Σ_out (v·abf+vbf) − v_last·abf_last *)
Lemma last_vbf_formula value abf ins outs :
  last_vbf value abf ins outs = zsub (zsub (zsum (map vb ins)) (zsum (map vb outs))) (zmul value abf).
Proof.
  unfold last_vbf. unfold zadd at 1, zneg, zsub, zmul.
  match goal with |- ?a mod qn = ?b mod qn => enough (E : eqn a b) by exact E end.
  rewrite ?mod_eqn. rewrite fold_left_zadd. rewrite isum_app. rewrite isum_addend_pos. rewrite isum_addend_neg.
  rewrite map_app, isum_app. rewrite !zsum_eqn.
  cbn [map isum fold_right vb]. unfold zadd, zmul. rewrite ?mod_eqn. unfold eqn. f_equal. ring.
Qed.
Lemma last_vbf_range value abf ins outs : in_zn (last_vbf value abf ins outs).
Proof. apply zadd_range. Qed.
