(* Executable SHA-256 over list byte (FIPS 180-4) on Coq's primitive 63-bit integers; used only to *run* the models
   (correspondence, Examples). Every theorem is stated over an abstract hash, so no primitive enters a proof. *)
From Coq Require Import List NArith Uint63.
From Coq.Strings Require Import Byte.
From EV Require Import Base.Bytes.
Import ListNotations.
Open Scope uint63_scope.
Definition iand := PrimInt63.land. Definition ior := PrimInt63.lor. Definition ixor := PrimInt63.lxor.
Definition ishl := PrimInt63.lsl. Definition ishr := PrimInt63.lsr.

Definition b2i (b : byte) : int := match b with
  | x00 => 0
  | x01 => 1
  | x02 => 2
  | x03 => 3
  | x04 => 4
  | x05 => 5
  | x06 => 6
  | x07 => 7
  | x08 => 8
  | x09 => 9
  | x0a => 10
  | x0b => 11
  | x0c => 12
  | x0d => 13
  | x0e => 14
  | x0f => 15
  | x10 => 16
  | x11 => 17
  | x12 => 18
  | x13 => 19
  | x14 => 20
  | x15 => 21
  | x16 => 22
  | x17 => 23
  | x18 => 24
  | x19 => 25
  | x1a => 26
  | x1b => 27
  | x1c => 28
  | x1d => 29
  | x1e => 30
  | x1f => 31
  | x20 => 32
  | x21 => 33
  | x22 => 34
  | x23 => 35
  | x24 => 36
  | x25 => 37
  | x26 => 38
  | x27 => 39
  | x28 => 40
  | x29 => 41
  | x2a => 42
  | x2b => 43
  | x2c => 44
  | x2d => 45
  | x2e => 46
  | x2f => 47
  | x30 => 48
  | x31 => 49
  | x32 => 50
  | x33 => 51
  | x34 => 52
  | x35 => 53
  | x36 => 54
  | x37 => 55
  | x38 => 56
  | x39 => 57
  | x3a => 58
  | x3b => 59
  | x3c => 60
  | x3d => 61
  | x3e => 62
  | x3f => 63
  | x40 => 64
  | x41 => 65
  | x42 => 66
  | x43 => 67
  | x44 => 68
  | x45 => 69
  | x46 => 70
  | x47 => 71
  | x48 => 72
  | x49 => 73
  | x4a => 74
  | x4b => 75
  | x4c => 76
  | x4d => 77
  | x4e => 78
  | x4f => 79
  | x50 => 80
  | x51 => 81
  | x52 => 82
  | x53 => 83
  | x54 => 84
  | x55 => 85
  | x56 => 86
  | x57 => 87
  | x58 => 88
  | x59 => 89
  | x5a => 90
  | x5b => 91
  | x5c => 92
  | x5d => 93
  | x5e => 94
  | x5f => 95
  | x60 => 96
  | x61 => 97
  | x62 => 98
  | x63 => 99
  | x64 => 100
  | x65 => 101
  | x66 => 102
  | x67 => 103
  | x68 => 104
  | x69 => 105
  | x6a => 106
  | x6b => 107
  | x6c => 108
  | x6d => 109
  | x6e => 110
  | x6f => 111
  | x70 => 112
  | x71 => 113
  | x72 => 114
  | x73 => 115
  | x74 => 116
  | x75 => 117
  | x76 => 118
  | x77 => 119
  | x78 => 120
  | x79 => 121
  | x7a => 122
  | x7b => 123
  | x7c => 124
  | x7d => 125
  | x7e => 126
  | x7f => 127
  | x80 => 128
  | x81 => 129
  | x82 => 130
  | x83 => 131
  | x84 => 132
  | x85 => 133
  | x86 => 134
  | x87 => 135
  | x88 => 136
  | x89 => 137
  | x8a => 138
  | x8b => 139
  | x8c => 140
  | x8d => 141
  | x8e => 142
  | x8f => 143
  | x90 => 144
  | x91 => 145
  | x92 => 146
  | x93 => 147
  | x94 => 148
  | x95 => 149
  | x96 => 150
  | x97 => 151
  | x98 => 152
  | x99 => 153
  | x9a => 154
  | x9b => 155
  | x9c => 156
  | x9d => 157
  | x9e => 158
  | x9f => 159
  | xa0 => 160
  | xa1 => 161
  | xa2 => 162
  | xa3 => 163
  | xa4 => 164
  | xa5 => 165
  | xa6 => 166
  | xa7 => 167
  | xa8 => 168
  | xa9 => 169
  | xaa => 170
  | xab => 171
  | xac => 172
  | xad => 173
  | xae => 174
  | xaf => 175
  | xb0 => 176
  | xb1 => 177
  | xb2 => 178
  | xb3 => 179
  | xb4 => 180
  | xb5 => 181
  | xb6 => 182
  | xb7 => 183
  | xb8 => 184
  | xb9 => 185
  | xba => 186
  | xbb => 187
  | xbc => 188
  | xbd => 189
  | xbe => 190
  | xbf => 191
  | xc0 => 192
  | xc1 => 193
  | xc2 => 194
  | xc3 => 195
  | xc4 => 196
  | xc5 => 197
  | xc6 => 198
  | xc7 => 199
  | xc8 => 200
  | xc9 => 201
  | xca => 202
  | xcb => 203
  | xcc => 204
  | xcd => 205
  | xce => 206
  | xcf => 207
  | xd0 => 208
  | xd1 => 209
  | xd2 => 210
  | xd3 => 211
  | xd4 => 212
  | xd5 => 213
  | xd6 => 214
  | xd7 => 215
  | xd8 => 216
  | xd9 => 217
  | xda => 218
  | xdb => 219
  | xdc => 220
  | xdd => 221
  | xde => 222
  | xdf => 223
  | xe0 => 224
  | xe1 => 225
  | xe2 => 226
  | xe3 => 227
  | xe4 => 228
  | xe5 => 229
  | xe6 => 230
  | xe7 => 231
  | xe8 => 232
  | xe9 => 233
  | xea => 234
  | xeb => 235
  | xec => 236
  | xed => 237
  | xee => 238
  | xef => 239
  | xf0 => 240
  | xf1 => 241
  | xf2 => 242
  | xf3 => 243
  | xf4 => 244
  | xf5 => 245
  | xf6 => 246
  | xf7 => 247
  | xf8 => 248
  | xf9 => 249
  | xfa => 250
  | xfb => 251
  | xfc => 252
  | xfd => 253
  | xfe => 254
  | xff => 255
  end.
Definition bit (i : int) (k : int) : bool := negb (is_zero (iand (ishr i k) 1)).
Definition i2b (i : int) : byte := Byte.of_bits (bit i 0, (bit i 1, (bit i 2, (bit i 3, (bit i 4, (bit i 5, (bit i 6, bit i 7))))))).

Definition mask32 : int := 4294967295.
Definition add32 a b := iand (a + b) mask32.
Definition rotr (x n : int) := iand (ior (ishr x n) (ishl x (32 - n))) mask32.
Definition Ch x y z := ixor (iand x y) (iand (ixor x mask32) z).
Definition Maj x y z := ixor (ixor (iand x y) (iand x z)) (iand y z).
Definition S0 x := ixor (ixor (rotr x 2) (rotr x 13)) (rotr x 22).
Definition S1 x := ixor (ixor (rotr x 6) (rotr x 11)) (rotr x 25).
Definition s0 x := ixor (ixor (rotr x 7) (rotr x 18)) (ishr x 3).
Definition s1 x := ixor (ixor (rotr x 17) (rotr x 19)) (ishr x 10).
Definition K : list int := [0x428a2f98;0x71374491;0xb5c0fbcf;0xe9b5dba5;0x3956c25b;0x59f111f1;0x923f82a4;0xab1c5ed5;0xd807aa98;0x12835b01;0x243185be;0x550c7dc3;0x72be5d74;0x80deb1fe;0x9bdc06a7;0xc19bf174;0xe49b69c1;0xefbe4786;0x0fc19dc6;0x240ca1cc;0x2de92c6f;0x4a7484aa;0x5cb0a9dc;0x76f988da;0x983e5152;0xa831c66d;0xb00327c8;0xbf597fc7;0xc6e00bf3;0xd5a79147;0x06ca6351;0x14292967;0x27b70a85;0x2e1b2138;0x4d2c6dfc;0x53380d13;0x650a7354;0x766a0abb;0x81c2c92e;0x92722c85;0xa2bfe8a1;0xa81a664b;0xc24b8b70;0xc76c51a3;0xd192e819;0xd6990624;0xf40e3585;0x106aa070;0x19a4c116;0x1e376c08;0x2748774c;0x34b0bcb5;0x391c0cb3;0x4ed8aa4a;0x5b9cca4f;0x682e6ff3;0x748f82ee;0x78a5636f;0x84c87814;0x8cc70208;0x90befffa;0xa4506ceb;0xbef9a3f7;0xc67178f2].
Fixpoint sched (n:nat) (w:list int) : list int := (* most-recent-first *)
  match n with O => w | S n' =>
    match w with
    | w1::w2::_ => sched n' (add32 (add32 (s1 w2) (nth 6 w 0)) (add32 (s0 (nth 14 w 0)) (nth 15 w 0)) :: w)
    | _ => w end end.
Definition state := (int*int*int*int*int*int*int*int)%type.
Definition round (st: state) (kw: int*int) : state :=
  let '(a,b,c,d,e,f,g,h) := st in let '(k,w) := kw in
  let t1 := add32 (add32 (add32 h (S1 e)) (add32 (Ch e f g) k)) w in
  let t2 := add32 (S0 a) (Maj a b c) in
  (add32 t1 t2, a,b,c, add32 d t1, e,f,g).
Definition compress (st: state) (blk: list int) : state :=
  let w := rev (sched 48 (rev blk)) in
  let '(a,b,c,d,e,f,g,h) := fold_left round (combine K w) st in
  let '(a0,b0,c0,d0,e0,f0,g0,h0) := st in
  (add32 a a0, add32 b b0, add32 c c0, add32 d d0, add32 e e0, add32 f f0, add32 g g0, add32 h h0).
Definition IV : state := (0x6a09e667,0xbb67ae85,0x3c6ef372,0xa54ff53a,0x510e527f,0x9b05688c,0x1f83d9ab,0x5be0cd19).

(* bytes -> big-endian 32-bit words (a tail shorter than 4 bytes is dropped; callers pass multiples of 64) *)
Fixpoint words_of_bytes (bs : bytes) : list int :=
  match bs with a :: b :: c :: d :: r => ior (ior (ishl (b2i a) 24) (ishl (b2i b) 16)) (ior (ishl (b2i c) 8) (b2i d)) :: words_of_bytes r | _ => [] end.
Definition bytes_of_word (w : int) : bytes := [i2b (ishr w 24); i2b (ishr w 16); i2b (ishr w 8); i2b w].
Definition bytes_of_state (st : state) : bytes :=
  let '(a,b,c,d,e,f,g,h) := st in flat_map bytes_of_word [a;b;c;d;e;f;g;h].

Fixpoint blocks (fuel : nat) (st : state) (bs : bytes) : state :=
  match fuel with O => st | S f =>
    match bs with [] => st | _ => blocks f (compress st (words_of_bytes (firstn 64 bs))) (skipn 64 bs) end end.
Definition pad (bs : bytes) : bytes :=
  let l := length bs in
  let z := (Nat.modulo (64 + 55 - Nat.modulo l 64) 64)%nat in
  bs ++ [x80] ++ repeat x00 z ++ be_enc 8 (8 * N.of_nat l)%N.
Definition sha256 (bs : bytes) : bytes :=
  let p := pad bs in bytes_of_state (blocks (S (Nat.div (length p) 64)) IV p).
Definition sha256d (bs : bytes) : bytes := sha256 (sha256 bs).
(* one compression of a 64-byte block from the initial state, no padding: the "midstate" of fast_merkle_root *)
Definition midstate64 (blk : bytes) : bytes := bytes_of_state (compress IV (words_of_bytes blk)).
Definition cmp256 (l r : bytes) : bytes := midstate64 (l ++ r).
(* tagged hash: sha256(sha256(tag) || sha256(tag) || msg) *)
Definition tagged (tag msg : bytes) : bytes := let t := sha256 tag in sha256 (t ++ t ++ msg).

Example sha256_abc : hex_of_bytes (sha256 "abc"%lb) = "ba7816bf8f01cfea414140de5dae2223b00361a396177a9cb410ff61f20015ad"%lb.
Proof. vm_compute. reflexivity. Qed.
Example sha256_empty : hex_of_bytes (sha256 []) = "e3b0c44298fc1c149afbf4c8996fb92427ae41e4649b934ca495991b7852b855"%lb.
Proof. vm_compute. reflexivity. Qed.
Example sha256_two_blocks : hex_of_bytes (sha256 "abcdbcdecdefdefgefghfghighijhijkijkljklmklmnlmnomnopnopq"%lb) = "248d6a61d20638b8e5c026930c3e6039a33ce45964ff2167f6ecedd419db06c1"%lb.
Proof. vm_compute. reflexivity. Qed.
Example i2b_b2i_all : forallb (fun n => byte_eqb (i2b (b2i (n2b (N.of_nat n)))) (n2b (N.of_nat n))) (seq 0 256) = true.
Proof. vm_compute. reflexivity. Qed.
