(* Standard base64 with canonical padding (the `base64` crate's STANDARD engine: alphabet A-Za-z0-9+/, '=' padding written
   and required, trailing bits must be zero).  Model and round-trip proof. *)
From Coq Require Import List Arith NArith ZArith Lia Bool ZifyN ZifyBool ZifyNat.
From Coq.Strings Require Import Byte.
From EV Require Import Base.Bytes.
Import ListNotations.
Ltac Zify.zify_post_hook ::= Z.div_mod_to_equations.
Open Scope N_scope.
Set Default Timeout 60.

Definition sx_char (n : N) : byte :=
  if n <? 26 then n2b (65 + n) else if n <? 52 then n2b (97 + (n - 26)) else if n <? 62 then n2b (48 + (n - 52)) else if n =? 62 then x2b else x2f.
Definition char_sx (c : byte) : option N :=
  let v := b2n c in
  if (65 <=? v) && (v <=? 90) then Some (v - 65)
  else if (97 <=? v) && (v <=? 122) then Some (v - 97 + 26)
  else if (48 <=? v) && (v <=? 57) then Some (v - 48 + 52)
  else if v =? 43 then Some 62 else if v =? 47 then Some 63 else None.
Definition pad : byte := x3d.

Fixpoint b64_enc (bs : bytes) : bytes :=
  match bs with
  | [] => []
  | [a] => let a := b2n a in [sx_char (a / 4); sx_char ((a mod 4) * 16); pad; pad]
  | [a; b] => let a := b2n a in let b := b2n b in [sx_char (a / 4); sx_char ((a mod 4) * 16 + b / 16); sx_char ((b mod 16) * 4); pad]
  | a :: b :: c :: r =>
      let a := b2n a in let b := b2n b in let c := b2n c in
      sx_char (a / 4) :: sx_char ((a mod 4) * 16 + b / 16) :: sx_char ((b mod 16) * 4 + c / 64) :: sx_char (c mod 64) :: b64_enc r
  end.

Fixpoint b64_dec_aux (fuel : nat) (s : bytes) : option bytes :=
  match fuel with O => None | S f =>
  match s with
  | [] => Some []
  | c0 :: c1 :: c2 :: c3 :: r =>
      match char_sx c0, char_sx c1 with
      | Some s0, Some s1 =>
          if byte_eqb c2 pad then
            (* "xx==" : one byte, only as the last group, low 4 bits of s1 zero *)
            if byte_eqb c3 pad then match r with [] => if s1 mod 16 =? 0 then Some [n2b (s0 * 4 + s1 / 16)] else None | _ => None end else None
          else match char_sx c2 with
               | None => None
               | Some s2 =>
                   if byte_eqb c3 pad then
                     match r with [] => if s2 mod 4 =? 0 then Some [n2b (s0 * 4 + s1 / 16); n2b ((s1 mod 16) * 16 + s2 / 4)] else None | _ => None end
                   else match char_sx c3 with
                        | None => None
                        | Some s3 => match b64_dec_aux f r with
                                     | Some t => Some (n2b (s0 * 4 + s1 / 16) :: n2b ((s1 mod 16) * 16 + s2 / 4) :: n2b ((s2 mod 4) * 64 + s3) :: t)
                                     | None => None end
                        end
               end
      | _, _ => None end
  | _ => None
  end end.
Definition b64_dec (s : bytes) : option bytes := b64_dec_aux (S (length s)) s.

Lemma char_sx_char n : n < 64 -> char_sx (sx_char n) = Some n.
Proof. intros H. assert (E : forallb (fun k => match char_sx (sx_char (N.of_nat k)) with Some m => m =? N.of_nat k | None => false end) (seq 0 64) = true) by (vm_compute; reflexivity).
  rewrite forallb_forall in E. specialize (E (N.to_nat n)). rewrite N2Nat.id in E.
  assert (I : In (N.to_nat n) (seq 0 64)) by (apply in_seq; lia). specialize (E I).
  destruct (char_sx (sx_char n)) as [m|]; [|discriminate]. apply N.eqb_eq in E. now subst. Qed.
Lemma sx_char_not_pad n : n < 64 -> byte_eqb (sx_char n) pad = false.
Proof. intros H. assert (E : forallb (fun k => negb (byte_eqb (sx_char (N.of_nat k)) pad)) (seq 0 64) = true) by (vm_compute; reflexivity).
  rewrite forallb_forall in E. specialize (E (N.to_nat n)). rewrite N2Nat.id in E.
  assert (I : In (N.to_nat n) (seq 0 64)) by (apply in_seq; lia). specialize (E I). now apply negb_true_iff in E. Qed.

Lemma byte_eqb_refl_pad : byte_eqb pad pad = true. Proof. reflexivity. Qed.

Lemma b64_enc_length bs : (length (b64_enc bs) <= 4 + 2 * length bs)%nat.
Proof. remember (length bs) as n eqn:L. revert bs L. induction n as [n IH] using lt_wf_ind. intros bs L.
  destruct bs as [|a [|b [|c r]]]; cbn [b64_enc length] in *; try lia. specialize (IH (length r)). assert (length r < n)%nat by lia.
  specialize (IH H r eq_refl). lia. Qed.

Lemma b64_dec_aux_enc : forall n bs fuel, length bs = n -> (length (b64_enc bs) < fuel)%nat -> b64_dec_aux fuel (b64_enc bs) = Some bs.
Proof. induction n as [n IH] using lt_wf_ind. intros bs fuel L F.
  destruct fuel as [|f]; [lia|]. destruct bs as [|a [|b [|c r]]]; cbn [b64_enc] in *.
  - reflexivity.
  - pose proof (b2n_lt a) as Ha. cbn [b64_dec_aux].
    rewrite !char_sx_char by lia. rewrite !byte_eqb_refl_pad.
    replace ((b2n a mod 4 * 16) mod 16) with 0 by lia. cbn [N.eqb]. do 2 f_equal.
    replace (b2n a / 4 * 4 + b2n a mod 4 * 16 / 16) with (b2n a) by lia. apply n2b_b2n.
  - pose proof (b2n_lt a) as Ha. pose proof (b2n_lt b) as Hb. cbn [b64_dec_aux].
    rewrite !char_sx_char by lia. rewrite sx_char_not_pad by lia. rewrite byte_eqb_refl_pad.
    replace ((b2n b mod 16 * 4) mod 4) with 0 by lia. cbn [N.eqb]. f_equal. f_equal; [|f_equal].
    + replace (b2n a / 4 * 4 + (b2n a mod 4 * 16 + b2n b / 16) / 16) with (b2n a) by lia. apply n2b_b2n.
    + replace ((b2n a mod 4 * 16 + b2n b / 16) mod 16 * 16 + b2n b mod 16 * 4 / 4) with (b2n b) by lia. apply n2b_b2n.
  - pose proof (b2n_lt a) as Ha. pose proof (b2n_lt b) as Hb. pose proof (b2n_lt c) as Hc. cbn [b64_dec_aux].
    rewrite !char_sx_char by lia. rewrite !sx_char_not_pad by lia.
    cbn [length] in L, F. rewrite (IH (length r)); [|lia|reflexivity|lia]. f_equal. f_equal; [|f_equal; [|f_equal]].
    + replace (b2n a / 4 * 4 + (b2n a mod 4 * 16 + b2n b / 16) / 16) with (b2n a) by lia. apply n2b_b2n.
    + replace ((b2n a mod 4 * 16 + b2n b / 16) mod 16 * 16 + (b2n b mod 16 * 4 + b2n c / 64) / 4) with (b2n b) by lia. apply n2b_b2n.
    + replace ((b2n b mod 16 * 4 + b2n c / 64) mod 4 * 64 + b2n c mod 64) with (b2n c) by lia. apply n2b_b2n. Qed.

Theorem b64_roundtrip bs : b64_dec (b64_enc bs) = Some bs.
Proof. unfold b64_dec. eapply b64_dec_aux_enc; [reflexivity|lia]. Qed.
