(* Executable instance of the one secp256k1 parser fact the address models need: which 33-byte strings
   `secp256k1_zkp::PublicKey::from_slice` accepts.  Transcribed from secp256k1's `secp256k1_eckey_pubkey_parse` /
   `secp256k1_ge_set_xo_var` (vendored C sources of secp256k1-sys): prefix 0x02 or 0x03, x < p, x^3 + 7 a square mod p.
   In theorems the predicate is an abstract Section variable; this instance is only used to RUN the model. *)
From Coq Require Import List NArith Bool.
From Coq.Strings Require Import Byte.
From EV Require Import Base.Bytes.
Import ListNotations.
Open Scope N_scope.

Definition secp_p : N := 2 ^ 256 - 2 ^ 32 - 977.

(* Jacobi symbol (a / n) for odd n: Some true = +1, Some false = -1, None = 0 (binary/Euclid algorithm with fuel) *)
Fixpoint jacobi_aux (fuel : nat) (a n : N) (t : bool) : option bool :=
  match fuel with
  | O => None
  | S f =>
      if a =? 0 then (if n =? 1 then Some t else None)
      else if N.even a then
        let r := n mod 8 in jacobi_aux f (a / 2) n (if (r =? 3) || (r =? 5) then negb t else t)
      else
        let t' := if (a mod 4 =? 3) && (n mod 4 =? 3) then negb t else t in
        jacobi_aux f (n mod a) a t'
  end.
Definition jacobi (a n : N) : option bool := jacobi_aux 2000 (a mod n) n true.

Definition is_square_mod_p (v : N) : bool := match jacobi v secp_p with Some true => true | _ => (v mod secp_p =? 0) end.

Definition on_curve_x (x : N) : bool := (x <? secp_p) && is_square_mod_p ((x * x mod secp_p * x + 7) mod secp_p).

(* PublicKey::from_slice on exactly 33 bytes *)
Definition pubkey33_valid (b : bytes) : bool :=
  match b with
  | pfx :: xs => Nat.eqb (length xs) 32 && ((b2n pfx =? 2) || (b2n pfx =? 3)) && on_curve_x (be_val xs)
  | [] => false end.
