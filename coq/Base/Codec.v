(* Codec combinators with the three laws every consensus codec of C01 must satisfy, plus the reported length.
   A decoder consumes a prefix and returns the unconsumed rest: bytes -> option (A * bytes). *)
From Coq Require Import List NArith ZArith Lia Bool ZifyN ZifyBool ZifyNat.
From Coq.Strings Require Import Byte.
From EV Require Import Base.Bytes.
Import ListNotations.
Ltac Zify.zify_post_hook ::= Z.div_mod_to_equations.
Open Scope N_scope.
Set Default Timeout 30.

Record codec (A : Type) := {
  enc : A -> bytes;
  dec : bytes -> option (A * bytes);
  wf : A -> bool;           (* canonical in-memory values: exactly what the decoder can return *)
  elen : A -> N             (* the length the encoder reports (the usize returned by consensus_encode) *)
}.
Arguments enc {A}. Arguments dec {A}. Arguments wf {A}. Arguments elen {A}.

Definition Exact {A} (c : codec A) := forall bs v rest, dec c bs = Some (v, rest) -> bs = enc c v ++ rest.
Definition DecWf {A} (c : codec A) := forall bs v rest, dec c bs = Some (v, rest) -> wf c v = true.
Definition Complete {A} (c : codec A) := forall v rest, wf c v = true -> dec c (enc c v ++ rest) = Some (v, rest).
Definition LenOk {A} (c : codec A) := forall v, wf c v = true -> elen c v = N.of_nat (length (enc c v)).
Record Lawful {A} (c : codec A) := { l_exact : Exact c; l_wf : DecWf c; l_complete : Complete c; l_len : LenOk c }.
Arguments l_exact {A c}. Arguments l_wf {A c}. Arguments l_complete {A c}. Arguments l_len {A c}.

(* whole-buffer decoding: `deserialize` demands that everything was consumed *)
Definition deserialize {A} (c : codec A) (bs : bytes) : option A :=
  match dec c bs with Some (v, []) => Some v | _ => None end.

Lemma deserialize_exact {A} (c : codec A) : Lawful c -> forall bs v, deserialize c bs = Some v -> bs = enc c v /\ wf c v = true.
Proof. intros L bs v H. unfold deserialize in H. destruct (dec c bs) as [[v' [|x r]]|] eqn:D; try discriminate.
  inversion H; subst. split; [|eapply l_wf; eauto]. apply (l_exact L) in D. now rewrite app_nil_r in D. Qed.
Lemma deserialize_complete {A} (c : codec A) : Lawful c -> forall v, wf c v = true -> deserialize c (enc c v) = Some v.
Proof. intros L v H. unfold deserialize. pose proof (l_complete L v [] H) as D. rewrite app_nil_r in D. now rewrite D. Qed.
(* no two different byte strings decode to the same value *)
Lemma deserialize_inj {A} (c : codec A) : Lawful c -> forall b1 b2 v, deserialize c b1 = Some v -> deserialize c b2 = Some v -> b1 = b2.
Proof. intros L b1 b2 v H1 H2. apply (deserialize_exact c L) in H1 as [-> _]. apply (deserialize_exact c L) in H2 as [-> _]. reflexivity. Qed.
(* encoders are injective on canonical values *)
Lemma enc_inj {A} (c : codec A) : Lawful c -> forall v v', wf c v = true -> wf c v' = true -> enc c v = enc c v' -> v = v'.
Proof. intros L v v' H H' E. pose proof (l_complete L v [] H) as D. pose proof (l_complete L v' [] H') as D'.
  rewrite E in D. rewrite D in D'. now inversion D'. Qed.
(* prefix-freeness: an encoding followed by anything decodes to the same value *)
Lemma enc_prefix_inj {A} (c : codec A) : Lawful c -> forall v v' r r', wf c v = true -> wf c v' = true ->
  enc c v ++ r = enc c v' ++ r' -> v = v' /\ r = r'.
Proof. intros L v v' r r' H H' E. pose proof (l_complete L v r H) as D. pose proof (l_complete L v' r' H') as D'.
  rewrite E in D. rewrite D in D'. inversion D'. auto. Qed.

(* ---- unit ---- *)
Definition c_unit : codec unit := {| enc := fun _ => []; dec := fun bs => Some (tt, bs); wf := fun _ => true; elen := fun _ => 0 |}.
Lemma c_unit_lawful : Lawful c_unit.
Proof. split; red; cbn; intros; try destruct v; try congruence. inversion H; reflexivity. Qed.

(* ---- u8 ---- *)
Definition c_u8 : codec N :=
  {| enc := fun n => [n2b n]; dec := fun bs => match bs with b :: r => Some (b2n b, r) | [] => None end; wf := fun n => n <? 256; elen := fun _ => 1 |}.
Lemma c_u8_lawful : Lawful c_u8.
Proof. split; red; cbn.
  - intros [|b r] v rest H; inversion H; subst. now rewrite n2b_b2n.
  - intros [|b r] v rest H; inversion H; subst. apply N.ltb_lt, b2n_lt.
  - intros v rest H. apply N.ltb_lt in H. now rewrite b2n_n2b, N.mod_small.
  - reflexivity. Qed.

(* ---- little endian k bytes ---- *)
Fixpoint le_dec (k : nat) (bs : bytes) : option (N * bytes) :=
  match k with O => Some (0, bs) | S k' => match bs with [] => None | b :: r => match le_dec k' r with Some (n, r') => Some (b2n b + 256 * n, r') | None => None end end end.
Lemma le_dec_exact k : forall bs v rest, le_dec k bs = Some (v, rest) -> bs = le_enc k v ++ rest /\ v < 256 ^ N.of_nat k.
Proof. induction k as [|k IH]; intros bs v rest H; cbn [le_dec le_enc] in *.
  - inversion H; subst. split; [reflexivity|cbn; lia].
  - destruct bs as [|b r]; [discriminate|]. destruct (le_dec k r) as [[n r']|] eqn:E; [|discriminate]. inversion H; subst.
    destruct (IH _ _ _ E) as [-> Hn]. pose proof (b2n_lt b) as Hb.
    assert (Hd : (b2n b + 256 * n) / 256 = n) by lia. rewrite Hd.
    split. { cbn. f_equal. unfold n2b. assert (Hm : (b2n b + 256 * n) mod 256 = b2n b) by lia. rewrite Hm. unfold b2n. now rewrite Byte.of_to_N. }
    rewrite Nnat.Nat2N.inj_succ, N.pow_succ_r'. nia. Qed.
Lemma le_dec_complete k : forall v rest, v < 256 ^ N.of_nat k -> le_dec k (le_enc k v ++ rest) = Some (v, rest).
Proof. induction k as [|k IH]; intros v rest H; cbn [le_dec le_enc].
  - cbn in H. now replace v with 0 by lia.
  - cbn [app]. rewrite Nnat.Nat2N.inj_succ, N.pow_succ_r' in H.
    assert (Hq : v / 256 < 256 ^ N.of_nat k) by (apply N.div_lt_upper_bound; lia).
    rewrite IH by exact Hq. rewrite b2n_n2b. f_equal. f_equal. lia. Qed.
Definition c_le (k : nat) : codec N := {| enc := le_enc k; dec := le_dec k; wf := fun n => n <? 256 ^ N.of_nat k; elen := fun _ => N.of_nat k |}.
Lemma c_le_lawful k : Lawful (c_le k).
Proof. split; red; cbn; intros.
  - now apply le_dec_exact in H.
  - apply le_dec_exact in H. now apply N.ltb_lt.
  - apply le_dec_complete. now apply N.ltb_lt.
  - now rewrite le_enc_length. Qed.
Definition c_u16 := c_le 2. Definition c_u32 := c_le 4. Definition c_u64 := c_le 8.

(* big endian k bytes (explicit confidential values are byte-swapped u64) *)
Definition be_dec (k : nat) (bs : bytes) : option (N * bytes) :=
  match take k bs with Some (a, r) => Some (be_val a, r) | None => None end.
Definition c_be (k : nat) : codec N := {| enc := be_enc k; dec := be_dec k; wf := fun n => n <? 256 ^ N.of_nat k; elen := fun _ => N.of_nat k |}.
Lemma c_be_lawful k : Lawful (c_be k).
Proof. split; red; cbn; unfold be_dec.
  - intros bs v rest H. destruct (take k bs) as [[a r]|] eqn:T; [|discriminate]. inversion H; subst.
    apply take_spec in T as [-> <-]. now rewrite be_enc_val.
  - intros bs v rest H. destruct (take k bs) as [[a r]|] eqn:T; [|discriminate]. inversion H; subst.
    apply take_spec in T as [_ <-]. apply N.ltb_lt, be_val_lt.
  - intros v rest H. apply N.ltb_lt in H. rewrite <- (be_enc_length k v) at 1. rewrite take_app. now rewrite be_val_enc.
  - intros. now rewrite be_enc_length. Qed.

(* ---- exactly k raw bytes ---- *)
Definition c_fixed (k : nat) : codec bytes :=
  {| enc := fun b => b; dec := take k; wf := fun b => Nat.eqb (length b) k; elen := fun b => N.of_nat (length b) |}.
Lemma c_fixed_lawful k : Lawful (c_fixed k).
Proof. split; red; cbn.
  - intros bs v rest H. now apply take_spec in H as [-> _].
  - intros bs v rest H. apply take_spec in H as [_ <-]. apply Nat.eqb_refl.
  - intros v rest H. apply Nat.eqb_eq in H. subst k. apply take_app.
  - reflexivity. Qed.

(* ---- minimal varint (read_varint / emit_varint) ---- *)
Definition vi_enc (n : N) : bytes :=
  if n <? 0xFD then [n2b n] else if n <? 0x10000 then n2b 0xFD :: le_enc 2 n else if n <? 0x100000000 then n2b 0xFE :: le_enc 4 n else n2b 0xFF :: le_enc 8 n.
Definition vi_dec (bs : bytes) : option (N * bytes) :=
  match bs with [] => None | b :: r =>
    let t := b2n b in
    if t =? 0xFF then match le_dec 8 r with Some (x, r') => if x <? 0x100000000 then None else Some (x, r') | None => None end
    else if t =? 0xFE then match le_dec 4 r with Some (x, r') => if x <? 0x10000 then None else Some (x, r') | None => None end
    else if t =? 0xFD then match le_dec 2 r with Some (x, r') => if x <? 0xFD then None else Some (x, r') | None => None end
    else Some (t, r) end.
Definition vi_size (n : N) : N := if n <? 0xFD then 1 else if n <? 0x10000 then 3 else if n <? 0x100000000 then 5 else 9.
Definition c_varint : codec N := {| enc := vi_enc; dec := vi_dec; wf := fun n => n <? 2 ^ 64; elen := vi_size |}.
Lemma c_varint_lawful : Lawful c_varint.
Proof. split; red; cbn [c_varint enc dec wf elen]; unfold vi_dec, vi_enc, vi_size.
  - intros [|b r] v rest H; [discriminate|]. pose proof (b2n_lt b) as Hb.
    destruct (N.eqb_spec (b2n b) 0xFF) as [E|NE].
    { destruct (le_dec 8 r) as [[x r']|] eqn:D; [|discriminate]. destruct (N.ltb_spec x 0x100000000); [discriminate|]. inversion H; subst.
      apply le_dec_exact in D as [-> Hx]. destruct (N.ltb_spec v 0xFD); [lia|]. destruct (N.ltb_spec v 0x10000); [lia|]. destruct (N.ltb_spec v 0x100000000); [lia|]. cbn [app]. f_equal. now apply n2b_lit. }
    destruct (N.eqb_spec (b2n b) 0xFE) as [E|NE2].
    { destruct (le_dec 4 r) as [[x r']|] eqn:D; [|discriminate]. destruct (N.ltb_spec x 0x10000); [discriminate|]. inversion H; subst.
      apply le_dec_exact in D as [-> Hx]. cbn in Hx. destruct (N.ltb_spec v 0xFD); [lia|]. destruct (N.ltb_spec v 0x10000); [lia|]. destruct (N.ltb_spec v 0x100000000); [|lia]. cbn [app]. f_equal. now apply n2b_lit. }
    destruct (N.eqb_spec (b2n b) 0xFD) as [E|NE3].
    { destruct (le_dec 2 r) as [[x r']|] eqn:D; [|discriminate]. destruct (N.ltb_spec x 0xFD); [discriminate|]. inversion H; subst.
      apply le_dec_exact in D as [-> Hx]. cbn in Hx. destruct (N.ltb_spec v 0xFD); [lia|]. destruct (N.ltb_spec v 0x10000); [|lia]. cbn [app]. f_equal. now apply n2b_lit. }
    inversion H; subst. destruct (N.ltb_spec (b2n b) 0xFD); [|lia]. cbn. now rewrite n2b_b2n.
  - intros [|b r] v rest H; [discriminate|]. pose proof (b2n_lt b) as Hb. apply N.ltb_lt.
    destruct (b2n b =? 0xFF). { destruct (le_dec 8 r) as [[x r']|] eqn:D; [|discriminate]. destruct (x <? _); [discriminate|]. inversion H; subst. apply le_dec_exact in D as [_ Hx]. exact Hx. }
    destruct (b2n b =? 0xFE). { destruct (le_dec 4 r) as [[x r']|] eqn:D; [|discriminate]. destruct (x <? _); [discriminate|]. inversion H; subst. apply le_dec_exact in D as [_ Hx]. cbn in Hx. lia. }
    destruct (b2n b =? 0xFD). { destruct (le_dec 2 r) as [[x r']|] eqn:D; [|discriminate]. destruct (x <? _); [discriminate|]. inversion H; subst. apply le_dec_exact in D as [_ Hx]. cbn in Hx. lia. }
    inversion H; subst. lia.
  - intros v rest H. apply N.ltb_lt in H.
    destruct (N.ltb_spec v 0xFD).
    { cbn [app]. rewrite b2n_n2b, N.mod_small by lia. destruct (N.eqb_spec v 0xFF); [lia|]. destruct (N.eqb_spec v 0xFE); [lia|]. destruct (N.eqb_spec v 0xFD); [lia|]. reflexivity. }
    destruct (N.ltb_spec v 0x10000).
    { cbn [app]. rewrite b2n_n2b. change (0xFD mod 256) with 0xFD. cbn [N.eqb Pos.eqb]. rewrite le_dec_complete by (cbn; lia). destruct (N.ltb_spec v 0xFD); [lia|reflexivity]. }
    destruct (N.ltb_spec v 0x100000000).
    { cbn [app]. rewrite b2n_n2b. change (0xFE mod 256) with 0xFE. cbn [N.eqb Pos.eqb]. rewrite le_dec_complete by (cbn; lia). destruct (N.ltb_spec v 0x10000); [lia|reflexivity]. }
    cbn [app]. rewrite b2n_n2b. change (0xFF mod 256) with 0xFF. cbn [N.eqb Pos.eqb]. rewrite le_dec_complete by (cbn; lia). destruct (N.ltb_spec v 0x100000000); [lia|reflexivity].
  - intros v. destruct (v <? 0xFD); [reflexivity|]. destruct (v <? 0x10000); [reflexivity|]. destruct (v <? 0x100000000); reflexivity. Qed.

(* ---- pair ---- *)
Definition c_pair {A B} (ca : codec A) (cb : codec B) : codec (A * B) :=
  {| enc := fun '(a, b) => enc ca a ++ enc cb b;
     dec := fun bs => match dec ca bs with Some (a, r) => match dec cb r with Some (b, r') => Some ((a, b), r') | None => None end | None => None end;
     wf := fun '(a, b) => wf ca a && wf cb b;
     elen := fun '(a, b) => elen ca a + elen cb b |}.
Lemma c_pair_lawful {A B} (ca : codec A) (cb : codec B) : Lawful ca -> Lawful cb -> Lawful (c_pair ca cb).
Proof. intros [ea wa ca' la] [eb wb cb' lb]. split; red; cbn.
  - intros bs [a b] rest H. destruct (dec ca bs) as [[a' r]|] eqn:Da; [|discriminate]. destruct (dec cb r) as [[b' r']|] eqn:Db; [|discriminate]. inversion H; subst.
    apply ea in Da. apply eb in Db. subst. now rewrite app_assoc.
  - intros bs [a b] rest H. destruct (dec ca bs) as [[a' r]|] eqn:Da; [|discriminate]. destruct (dec cb r) as [[b' r']|] eqn:Db; [|discriminate]. inversion H; subst.
    apply wa in Da. apply wb in Db. now rewrite Da, Db.
  - intros [a b] rest H. apply andb_true_iff in H as [Ha Hb]. rewrite <- app_assoc, ca' by assumption. now rewrite cb'.
  - intros [a b] H. apply andb_true_iff in H as [Ha Hb]. rewrite app_length, Nnat.Nat2N.inj_add, la, lb by assumption. reflexivity. Qed.

(* ---- dependent pair: the codec of the second component is selected by the first ---- *)
Definition c_dep {A B} (ca : codec A) (cb : A -> codec B) : codec (A * B) :=
  {| enc := fun '(a, b) => enc ca a ++ enc (cb a) b;
     dec := fun bs => match dec ca bs with Some (a, r) => match dec (cb a) r with Some (b, r') => Some ((a, b), r') | None => None end | None => None end;
     wf := fun '(a, b) => wf ca a && wf (cb a) b;
     elen := fun '(a, b) => elen ca a + elen (cb a) b |}.
Lemma c_dep_lawful {A B} (ca : codec A) (cb : A -> codec B) : Lawful ca -> (forall a, Lawful (cb a)) -> Lawful (c_dep ca cb).
Proof. intros [ea wa ca' la] Lb. split; red; cbn.
  - intros bs [a b] rest H. destruct (dec ca bs) as [[a' r]|] eqn:Da; [|discriminate]. destruct (dec (cb a') r) as [[b' r']|] eqn:Db; [|discriminate]. inversion H; subst.
    apply ea in Da. apply (l_exact (Lb a)) in Db. subst. now rewrite app_assoc.
  - intros bs [a b] rest H. destruct (dec ca bs) as [[a' r]|] eqn:Da; [|discriminate]. destruct (dec (cb a') r) as [[b' r']|] eqn:Db; [|discriminate]. inversion H; subst.
    apply wa in Da. apply (l_wf (Lb a)) in Db. now rewrite Da, Db.
  - intros [a b] rest H. apply andb_true_iff in H as [Ha Hb]. rewrite <- app_assoc, ca' by assumption. now rewrite (l_complete (Lb a)).
  - intros [a b] H. apply andb_true_iff in H as [Ha Hb]. rewrite app_length, Nnat.Nat2N.inj_add, la, (l_len (Lb a)) by assumption. reflexivity. Qed.

(* ---- conversion through a partial view: B is the in-memory type, A the wire tuple ---- *)
Definition c_conv {A B} (c : codec A) (to : A -> option B) (from : B -> A) (wfB : B -> bool) : codec B :=
  {| enc := fun b => enc c (from b);
     dec := fun bs => match dec c bs with Some (a, r) => match to a with Some b => Some (b, r) | None => None end | None => None end;
     wf := fun b => wfB b && wf c (from b);
     elen := fun b => elen c (from b) |}.
Lemma c_conv_lawful {A B} (c : codec A) (to : A -> option B) (from : B -> A) (wfB : B -> bool) :
  Lawful c ->
  (forall a b, wf c a = true -> to a = Some b -> from b = a /\ wfB b = true) ->
  (forall b, wfB b = true -> wf c (from b) = true -> to (from b) = Some b) ->
  Lawful (c_conv c to from wfB).
Proof. intros [e w cp l] H1 H3. split; red; cbn.
  - intros bs b rest H. destruct (dec c bs) as [[a r]|] eqn:D; [|discriminate]. destruct (to a) as [b'|] eqn:T; [|discriminate]. inversion H; subst.
    pose proof (w _ _ _ D) as Wa. destruct (H1 _ _ Wa T) as [-> _]. now apply e.
  - intros bs b rest H. destruct (dec c bs) as [[a r]|] eqn:D; [|discriminate]. destruct (to a) as [b'|] eqn:T; [|discriminate]. inversion H; subst.
    pose proof (w _ _ _ D) as Wa. destruct (H1 _ _ Wa T) as [-> ->]. now rewrite Wa.
  - intros b rest H. apply andb_true_iff in H as [Hb Hc]. rewrite cp by assumption. now rewrite H3.
  - intros b H. apply andb_true_iff in H as [_ H]. now apply l. Qed.

(* ---- n elements in sequence ---- *)
Fixpoint vn_dec {A} (c : codec A) (n : nat) (bs : bytes) : option (list A * bytes) :=
  match n with O => Some ([], bs) | S n' => match dec c bs with Some (a, r) => match vn_dec c n' r with Some (l, r') => Some (a :: l, r') | None => None end | None => None end end.
Definition vn_enc {A} (c : codec A) (l : list A) : bytes := concat (map (enc c) l).
Definition vn_len {A} (c : codec A) (l : list A) : N := fold_right (fun a s => elen c a + s) 0 l.
Lemma vn_exact {A} (c : codec A) : Lawful c -> forall n bs l rest, vn_dec c n bs = Some (l, rest) -> bs = vn_enc c l ++ rest /\ length l = n /\ forallb (wf c) l = true.
Proof. intros [e w _ _]. induction n as [|n IH]; cbn; intros bs l rest H.
  - inversion H; subst. auto.
  - destruct (dec c bs) as [[a r]|] eqn:Da; [|discriminate]. destruct (vn_dec c n r) as [[l' r']|] eqn:Dl; [|discriminate]. inversion H; subst.
    apply IH in Dl as (-> & <- & F). pose proof (w _ _ _ Da) as W. apply e in Da. subst. unfold vn_enc. cbn. rewrite <- app_assoc. rewrite W. auto. Qed.
Lemma vn_complete {A} (c : codec A) : Lawful c -> forall l rest, forallb (wf c) l = true -> vn_dec c (length l) (vn_enc c l ++ rest) = Some (l, rest).
Proof. intros [_ _ cp _]. induction l as [|a l IH]; cbn; intros rest H; [reflexivity|].
  apply andb_true_iff in H as [Ha Hl]. unfold vn_enc. cbn. rewrite <- app_assoc, cp by assumption. fold (vn_enc c l). now rewrite IH. Qed.
Lemma vn_len_ok {A} (c : codec A) : Lawful c -> forall l, forallb (wf c) l = true -> vn_len c l = N.of_nat (length (vn_enc c l)).
Proof. intros L. induction l as [|a l IH]; intros F; [reflexivity|]. cbn [forallb] in F. apply andb_true_iff in F as [Fa Fl].
  unfold vn_enc in *. cbn [map concat vn_len fold_right]. rewrite app_length, Nnat.Nat2N.inj_add, <- IH, (l_len L) by assumption. reflexivity. Qed.
(* exactly n elements, n fixed from outside (the witnesses of a transaction: one per input / output) *)
Definition c_vecn {A} (c : codec A) (n : nat) : codec (list A) :=
  {| enc := vn_enc c; dec := vn_dec c n; wf := fun l => Nat.eqb (length l) n && forallb (wf c) l; elen := vn_len c |}.
Lemma c_vecn_lawful {A} (c : codec A) n : Lawful c -> Lawful (c_vecn c n).
Proof. intros L. split; red; cbn.
  - intros bs l rest H. now apply (vn_exact c L) in H as (-> & _ & _).
  - intros bs l rest H. apply (vn_exact c L) in H as (_ & <- & F). now rewrite Nat.eqb_refl.
  - intros l rest H. apply andb_true_iff in H as [H F]. apply Nat.eqb_eq in H. subst n. now apply vn_complete.
  - intros l H. apply andb_true_iff in H as [_ F]. now apply vn_len_ok. Qed.

(* ---- length-prefixed vector with an element-count cap (Vec<T>: len * size_of::<T>() <= MAX_VEC_SIZE) ---- *)
Definition c_vec {A} (c : codec A) (maxn : N) : codec (list A) :=
  {| enc := fun l => vi_enc (N.of_nat (length l)) ++ vn_enc c l;
     dec := fun bs => match vi_dec bs with Some (n, r) => if maxn <? n then None else vn_dec c (N.to_nat n) r | None => None end;
     wf := fun l => (N.of_nat (length l) <=? maxn) && (N.of_nat (length l) <? 2 ^ 64) && forallb (wf c) l;
     elen := fun l => vi_size (N.of_nat (length l)) + vn_len c l |}.
Lemma c_vec_lawful {A} (c : codec A) maxn : Lawful c -> Lawful (c_vec c maxn).
Proof. intros L. destruct c_varint_lawful as [ve vw vc vl]. split; red; cbn [c_vec enc dec wf elen].
  - intros bs l rest H. destruct (vi_dec bs) as [[n r]|] eqn:Dv; [|discriminate]. destruct (N.ltb_spec maxn n); [discriminate|].
    apply (vn_exact c L) in H as (-> & Hl & _). apply ve in Dv. cbn in Dv. subst bs. rewrite Hl, Nnat.N2Nat.id. now rewrite app_assoc.
  - intros bs l rest H. destruct (vi_dec bs) as [[n r]|] eqn:Dv; [|discriminate]. destruct (N.ltb_spec maxn n); [discriminate|].
    pose proof (vw _ _ _ Dv) as Hn. cbn [c_varint wf] in Hn. apply N.ltb_lt in Hn. apply (vn_exact c L) in H as (_ & Hl & F). rewrite Hl, Nnat.N2Nat.id, F.
    destruct (N.leb_spec n maxn); [|lia]. destruct (N.ltb_spec n (2^64)); [reflexivity|lia].
  - intros l rest H. apply andb_true_iff in H as [H F]. apply andb_true_iff in H as [H1 H2]. apply N.leb_le in H1.
    rewrite <- app_assoc. pose proof (vc (N.of_nat (length l)) (vn_enc c l ++ rest) H2) as E. cbn in E. rewrite E.
    destruct (N.ltb_spec maxn (N.of_nat (length l))); [lia|]. rewrite Nnat.Nat2N.id. now apply vn_complete.
  - intros l H. apply andb_true_iff in H as [H F]. apply andb_true_iff in H as [_ H2]. rewrite app_length, Nnat.Nat2N.inj_add, <- (vn_len_ok c L) by assumption. pose proof (vl (N.of_nat (length l)) H2) as E. cbn [c_varint elen enc] in E. now rewrite E. Qed.

(* ---- length-prefixed byte string with a byte cap (Vec<u8>: len <= MAX_VEC_SIZE) ---- *)
Definition c_varbytes (maxn : N) : codec bytes :=
  {| enc := fun b => vi_enc (N.of_nat (length b)) ++ b;
     dec := fun bs => match vi_dec bs with Some (n, r) => if maxn <? n then None else take (N.to_nat n) r | None => None end;
     wf := fun b => (N.of_nat (length b) <=? maxn) && (N.of_nat (length b) <? 2 ^ 64);
     elen := fun b => vi_size (N.of_nat (length b)) + N.of_nat (length b) |}.
Lemma c_varbytes_lawful maxn : Lawful (c_varbytes maxn).
Proof. destruct c_varint_lawful as [ve vw vc vl]. split; red; cbn [c_varbytes enc dec wf elen].
  - intros bs b rest H. destruct (vi_dec bs) as [[n r]|] eqn:Dv; [|discriminate]. destruct (N.ltb_spec maxn n); [discriminate|].
    apply take_spec in H as [-> Hl]. apply ve in Dv. cbn in Dv. subst bs. rewrite Hl, Nnat.N2Nat.id. now rewrite app_assoc.
  - intros bs b rest H. destruct (vi_dec bs) as [[n r]|] eqn:Dv; [|discriminate]. destruct (N.ltb_spec maxn n); [discriminate|].
    pose proof (vw _ _ _ Dv) as Hn. cbn in Hn. apply N.ltb_lt in Hn. apply take_spec in H as [_ Hl]. rewrite Hl, Nnat.N2Nat.id.
    destruct (N.leb_spec n maxn); [|lia]. destruct (N.ltb_spec n (2^64)); [reflexivity|lia].
  - intros b rest H. apply andb_true_iff in H as [H1 H2]. apply N.leb_le in H1.
    rewrite <- app_assoc. pose proof (vc (N.of_nat (length b)) (b ++ rest) H2) as E. cbn in E. rewrite E.
    destruct (N.ltb_spec maxn (N.of_nat (length b))); [lia|]. rewrite Nnat.Nat2N.id. apply take_app.
  - intros b H. apply andb_true_iff in H as [_ H2]. rewrite app_length, Nnat.Nat2N.inj_add. pose proof (vl (N.of_nat (length b)) H2) as E. cbn [c_varint elen enc] in E. now rewrite E. Qed.

(* ---- restriction by a predicate on the decoded value (e.g. point validity, proof header rules) ---- *)
Definition c_guard {A} (c : codec A) (p : A -> bool) : codec A :=
  {| enc := enc c; dec := fun bs => match dec c bs with Some (a, r) => if p a then Some (a, r) else None | None => None end;
     wf := fun a => wf c a && p a; elen := elen c |}.
Lemma c_guard_lawful {A} (c : codec A) p : Lawful c -> Lawful (c_guard c p).
Proof. intros [e w cp l]. split; red; cbn.
  - intros bs v rest H. destruct (dec c bs) as [[a r]|] eqn:D; [|discriminate]. destruct (p a) eqn:P; [|discriminate]. inversion H; subst. now apply e.
  - intros bs v rest H. destruct (dec c bs) as [[a r]|] eqn:D; [|discriminate]. destruct (p a) eqn:P; [|discriminate]. inversion H; subst. now rewrite (w _ _ _ D).
  - intros v rest H. apply andb_true_iff in H as [H P]. now rewrite cp, P.
  - intros v H. apply andb_true_iff in H as [H _]. now apply l. Qed.
