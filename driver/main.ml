(* Generic driver: reads one case per line ("<case>" or "<case>\t<anything>"), runs the extracted
   Gallina `run_line` on the case text, prints one result line. Coq's `byte` is an enumeration of 256
   constant constructors x00..xff in order, so its OCaml representation is the immediate integer 0..255. *)
let to_coq (s : string) : Model.byte list =
  let r = ref [] in
  for i = String.length s - 1 downto 0 do r := (Obj.magic (Char.code s.[i]) : Model.byte) :: !r done; !r
let of_coq (l : Model.byte list) : string =
  let b = Buffer.create 256 in
  List.iter (fun (c : Model.byte) -> Buffer.add_char b (Char.chr (Obj.magic c : int))) l; Buffer.contents b
let () =
  (* the extracted functions recurse non-tail on long lists; a large minor heap keeps the GC from rescanning the
     deep stack at every minor collection (which would make long cases quadratic) *)
  Gc.set { (Gc.get ()) with Gc.minor_heap_size = 16 * 1024 * 1024; Gc.space_overhead = 200 };
  try while true do
    let line = input_line stdin in
    let case = match String.index_opt line '\t' with Some i -> String.sub line 0 i | None -> line in
    print_string (of_coq (Model.run_line (to_coq case))); print_newline ()
  done with End_of_file -> ()
